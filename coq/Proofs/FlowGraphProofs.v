(* Lemmas about Model/FlowGraph.v.
   Part 1: a relational ("logical relation") lemma for the memo-free evaluation: two evaluations of
           the same graph whose row normalisers are related produce related environments.  It is
           instantiated twice: rows are normal (C17) and rows are equal as sets under two layouts (C13).
   Part 2: norm = de-duplicate + sort: sorted, duplicate-free, same elements, canonical.
   Part 3: the instances. *)
From Coq Require Import List Bool Arith NArith PArith FMapPositive Lia Sorted Permutation.
Import ListNotations.
From Supp Require Import Model.Layout Model.FlowGraph Proofs.LayoutProofs.

(* ---------------------------------------------------------------------------------------------- *)
(* Part 1                                                                                           *)
(* ---------------------------------------------------------------------------------------------- *)

Definition opt_rel {A B} (Q : A -> B -> Prop) (a : option A) (b : option B) : Prop :=
  match a, b with
  | None, None => True
  | Some x, Some y => Q x y
  | _, _ => False
  end.

Definition env_rel (Q : list alt -> list alt -> Prop) (e1 e2 : env) : Prop :=
  forall n, opt_rel Q (PM.find n e1) (PM.find n e2).

Section Rel.
  Variables canon1 canon2 : list alt -> list alt.
  Variable R : list alt -> list alt -> Prop.       (* relation on finished rows *)
  Variable Rraw : list alt -> list alt -> Prop.    (* relation on collected, not yet normalised rows *)
  Hypothesis R_single : forall b, R [ADef b] [ADef b].
  Hypothesis R_raw : forall x y, R x y -> Rraw x y.
  Hypothesis Rraw_undef : Rraw [AUndef] [AUndef].
  Hypothesis Rraw_app : forall x1 x2 y1 y2, Rraw x1 x2 -> Rraw y1 y2 -> Rraw (x1 ++ y1) (x2 ++ y2).
  Hypothesis R_canon : forall x y, Rraw x y -> R (canon1 x) (canon2 y).

  Lemma own_env_rel bs : forall e1 e2, env_rel R e1 e2 -> env_rel R (own_env bs e1) (own_env bs e2).
  Proof.
    unfold own_env. induction bs as [|b r IH]; intros e1 e2 H; simpl; [exact H|].
    apply IH. intros n. destruct (Pos.eq_dec n (b_name b)) as [->|Hn].
    - rewrite !PM.gss. simpl. apply R_single.
    - rewrite !PM.gso by exact Hn. apply H.
  Qed.

  Lemma orU_rel a b : opt_rel Rraw a b -> Rraw (orU a) (orU b).
  Proof. destruct a, b; simpl; intros H; try contradiction; auto. Qed.

  Lemma collect2_rel a1 a2 b1 b2 :
    env_rel Rraw a1 a2 -> env_rel Rraw b1 b2 -> env_rel Rraw (collect2 a1 b1) (collect2 a2 b2).
  Proof.
    intros Ha Hb n. unfold collect2. rewrite !PM.gmap2 by reflexivity.
    specialize (Ha n). specialize (Hb n).
    assert (HA := orU_rel _ _ Ha). assert (HB := orU_rel _ _ Hb).
    destruct (PM.find n a1), (PM.find n a2), (PM.find n b1), (PM.find n b2);
      unfold opt_rel in *; try contradiction; try exact I; apply Rraw_app; assumption.
  Qed.

  Lemma env_rel_raw e1 e2 : env_rel R e1 e2 -> env_rel Rraw e1 e2.
  Proof.
    intros H n. specialize (H n). destruct (PM.find n e1), (PM.find n e2); simpl in *; auto.
  Qed.

  Lemma fold_collect2_rel es1 : forall es2 a1 a2,
    Forall2 (env_rel R) es1 es2 -> env_rel Rraw a1 a2 ->
    env_rel Rraw (fold_left collect2 es1 a1) (fold_left collect2 es2 a2).
  Proof.
    induction es1 as [|e1 r1 IH]; intros es2 a1 a2 HF Ha; inversion HF; subst; simpl; [exact Ha|].
    apply IH; [assumption|]. apply collect2_rel; [exact Ha|]. apply env_rel_raw. assumption.
  Qed.

  Lemma join_rel es1 es2 : Forall2 (env_rel R) es1 es2 -> env_rel R (join canon1 es1) (join canon2 es2).
  Proof.
    intros HF. destruct HF as [|e1 e2 r1 r2 He Hr].
    - intros n. simpl. rewrite !PM.gempty. exact I.
    - destruct Hr as [|e1' e2' r1' r2' He' Hr'].
      + exact He.
      + unfold join. intros n. rewrite !PM.gmapi.
        assert (H := fold_collect2_rel (e1' :: r1') (e2' :: r2') e1 e2
                       (Forall2_cons _ _ He' Hr') (env_rel_raw _ _ He) n).
        destruct (PM.find n (fold_left collect2 (e1' :: r1') e1)),
                 (PM.find n (fold_left collect2 (e2' :: r2') e2)); simpl in *; auto.
  Qed.

  Lemma overlay_rel a1 a2 b1 b2 :
    env_rel R a1 a2 -> env_rel R b1 b2 -> env_rel R (overlay a1 b1) (overlay a2 b2).
  Proof.
    intros Ha Hb n. unfold overlay. rewrite !PM.gmap2 by reflexivity.
    specialize (Ha n). specialize (Hb n).
    destruct (PM.find n a1), (PM.find n a2); simpl in *; try contradiction; auto.
  Qed.

  Lemma fold_overlay_rel es1 es2 : Forall2 (env_rel R) es1 es2 ->
    env_rel R (fold_right overlay (PM.empty _) es1) (fold_right overlay (PM.empty _) es2).
  Proof.
    induction 1; simpl.
    - intros n. rewrite !PM.gempty. exact I.
    - apply overlay_rel; assumption.
  Qed.

  Lemma hide_env_rel h e1 e2 : env_rel R e1 e2 -> env_rel R (hide_env h e1) (hide_env h e2).
  Proof.
    destruct h as [hs|]; simpl; [|auto]. revert e1 e2.
    induction hs as [|x r IH]; intros e1 e2 H; simpl; [exact H|].
    apply IH. intros n. destruct (Pos.eq_dec n x) as [->|Hn].
    - rewrite !PM.grs. exact I.
    - rewrite !PM.gro by exact Hn. apply H.
  Qed.

  Variable g : graph.

  Definition rec_rel (rec1 rec2 : list nat -> nat -> option env) : Prop :=
    forall Rs i, opt_rel (env_rel R) (rec1 Rs i) (rec2 Rs i).

  Lemma gather_rel rec1 rec2 : rec_rel rec1 rec2 -> forall ps Rs,
    opt_rel (Forall2 (env_rel R)) (gather g rec1 Rs ps) (gather g rec2 Rs ps).
  Proof.
    intros Hrec. induction ps as [|p r IH]; intros Rs; simpl; [constructor|].
    destruct p as [i|l].
    - specialize (Hrec Rs i). specialize (IH Rs).
      destruct (rec1 Rs i), (rec2 Rs i); simpl in *; try contradiction; auto.
      destruct (gather g rec1 Rs r), (gather g rec2 Rs r); simpl in *; try contradiction; auto.
    - destruct (existsb (Nat.eqb l) Rs); [apply IH|].
      destruct (nth_error (loops g) l) as [t|]; [|exact I].
      specialize (Hrec (l :: Rs) t). specialize (IH Rs).
      destruct (rec1 (l :: Rs) t), (rec2 (l :: Rs) t); simpl in *; try contradiction; auto.
      destruct (gather g rec1 Rs r), (gather g rec2 Rs r); simpl in *; try contradiction; auto.
  Qed.

  Lemma sequence_rel rec1 rec2 Rs : rec_rel rec1 rec2 -> forall cs,
    opt_rel (Forall2 (env_rel R)) (sequence (map (rec1 Rs) cs)) (sequence (map (rec2 Rs) cs)).
  Proof.
    intros Hrec. induction cs as [|c r IH]; simpl; [constructor|].
    specialize (Hrec Rs c).
    destruct (rec1 Rs c), (rec2 Rs c); simpl in *; try contradiction; auto.
    destruct (sequence (map (rec1 Rs) r)), (sequence (map (rec2 Rs) r)); simpl in *;
      try contradiction; auto.
  Qed.

  Lemma pnames_with_rel rec1 rec2 Rs fl : rec_rel rec1 rec2 ->
    opt_rel (env_rel R) (pnames_with canon1 g rec1 Rs fl) (pnames_with canon2 g rec2 Rs fl).
  Proof.
    intros Hrec. unfold pnames_with. destruct (parents fl) as [|p ps] eqn:E.
    - assert (H := sequence_rel rec1 rec2 Rs Hrec (chain fl)).
      destruct (sequence (map (rec1 Rs) (chain fl))), (sequence (map (rec2 Rs) (chain fl)));
        simpl in *; try contradiction; auto.
      apply hide_env_rel. apply fold_overlay_rel. exact H.
    - assert (H := gather_rel rec1 rec2 Hrec (p :: ps) Rs).
      destruct (gather g rec1 Rs (p :: ps)), (gather g rec2 Rs (p :: ps));
        simpl in *; try contradiction; auto.
      apply join_rel. exact H.
  Qed.

  Lemma names_pure_rel fuel : rec_rel (names_pure canon1 g fuel) (names_pure canon2 g fuel).
  Proof.
    induction fuel as [|k IH]; intros Rs f; simpl; [exact I|].
    destruct (nth_error (flows g) f) as [fl|]; [|exact I].
    destruct (match closes_of g f with
              | Some l => if existsb (Nat.eqb l) Rs then None else Some l
              | None => None
              end) as [l|]; [apply IH|].
    assert (H := pnames_with_rel _ _ Rs fl IH).
    destruct (pnames_with canon1 g (names_pure canon1 g k) Rs fl),
             (pnames_with canon2 g (names_pure canon2 g k) Rs fl); simpl in *; try contradiction; auto.
    apply own_env_rel. exact H.
  Qed.

  Lemma names_at_idx_rel fuel f idx :
    opt_rel (env_rel R) (names_at_idx canon1 g fuel f idx) (names_at_idx canon2 g fuel f idx).
  Proof.
    unfold names_at_idx. destruct (nth_error (flows g) f) as [fl|]; [|exact I].
    assert (H := pnames_with_rel _ _ [] fl (names_pure_rel fuel)).
    destruct (pnames_with canon1 g (names_pure canon1 g fuel) [] fl),
             (pnames_with canon2 g (names_pure canon2 g fuel) [] fl); simpl in *; try contradiction; auto.
    apply own_env_rel. exact H.
  Qed.
End Rel.

(* ---------------------------------------------------------------------------------------------- *)
(* Part 2: norm                                                                                     *)
(* ---------------------------------------------------------------------------------------------- *)

Lemma alt_eqb_eq a b : alt_eqb a b = true <-> a = b.
Proof.
  destruct a, b; simpl; split; intros H; try discriminate; try reflexivity.
  - apply Pos.eqb_eq in H. subst. reflexivity.
  - inversion H. apply Pos.eqb_refl.
Qed.

Lemma alt_eqb_refl a : alt_eqb a a = true.
Proof. apply alt_eqb_eq. reflexivity. Qed.

Lemma In_dedupe x l : In x (dedupe l) <-> In x l.
Proof.
  induction l as [|a r IH]; simpl; [tauto|].
  rewrite filter_In, IH. split.
  - intros [H|[H _]]; auto.
  - intros [H|H]; [auto|]. destruct (alt_eqb a x) eqn:E.
    + left. apply alt_eqb_eq. exact E.
    + right. split; [exact H|reflexivity].
Qed.

Lemma NoDup_filter {A} (p : A -> bool) l : NoDup l -> NoDup (filter p l).
Proof.
  induction 1 as [|x l Hx Hl IH]; simpl; [constructor|].
  destruct (p x); [|exact IH]. constructor; [|exact IH].
  rewrite filter_In. tauto.
Qed.

Lemma NoDup_dedupe l : NoDup (dedupe l).
Proof.
  induction l as [|a r IH]; simpl; constructor.
  - rewrite filter_In. intros [_ H]. rewrite alt_eqb_refl in H. discriminate.
  - apply NoDup_filter. exact IH.
Qed.

Lemma In_sort_insert lt x y l : In y (sort_insert lt x l) <-> y = x \/ In y l.
Proof.
  induction l as [|e r IH]; simpl; [intuition|].
  destruct (lt x e); simpl; [intuition|]. rewrite IH. intuition.
Qed.

Lemma In_fold_sort lt l : forall acc y,
  In y (fold_left (fun acc x => sort_insert lt x acc) l acc) <-> In y acc \/ In y l.
Proof.
  induction l as [|x r IH]; intros acc y; simpl; [tauto|].
  rewrite IH, In_sort_insert. intuition.
Qed.

Lemma In_sort_alts lt l y : In y (sort_alts lt l) <-> In y l.
Proof. unfold sort_alts. rewrite In_fold_sort. simpl. tauto. Qed.

(* norm keeps exactly the elements of its argument *)
Lemma In_norm km l y : In y (norm km l) <-> In y l.
Proof. unfold norm. rewrite In_sort_alts. apply In_dedupe. Qed.

Lemma NoDup_sort_insert lt x l : ~ In x l -> NoDup l -> NoDup (sort_insert lt x l).
Proof.
  induction l as [|e r IH]; intros Hx Hl; simpl.
  - constructor; [auto|constructor].
  - destruct (lt x e).
    + constructor; assumption.
    + inversion Hl; subst. constructor.
      * rewrite In_sort_insert. intros [->|H]; [apply Hx; left; reflexivity|contradiction].
      * apply IH; [intros H; apply Hx; right; exact H|assumption].
Qed.

Lemma NoDup_fold_sort lt l : forall acc,
  NoDup l -> NoDup acc -> (forall x, In x l -> ~ In x acc) ->
  NoDup (fold_left (fun acc x => sort_insert lt x acc) l acc).
Proof.
  induction l as [|x r IH]; intros acc Hl Ha Hd; simpl; [exact Ha|].
  inversion Hl; subst. apply IH; [assumption| |].
  - apply NoDup_sort_insert; [apply Hd; left; reflexivity|exact Ha].
  - intros y Hy. rewrite In_sort_insert. intros [->|H]; [contradiction|].
    apply (Hd y); [right; exact Hy|exact H].
Qed.

Lemma NoDup_norm km l : NoDup (norm km l).
Proof.
  unfold norm, sort_alts. apply NoDup_fold_sort; [apply NoDup_dedupe|constructor|auto].
Qed.

(* --- the order of keys ------------------------------------------------------------------------ *)

Lemma pos_ltb_irrefl a : pos_ltb a a = false.
Proof. unfold pos_ltb. rewrite !N.ltb_irrefl, N.eqb_refl. reflexivity. Qed.

Lemma pos_eqb_eq a b : pos_eqb a b = true <-> a = b.
Proof.
  destruct a, b. unfold pos_eqb. simpl. rewrite andb_true_iff, !N.eqb_eq.
  split; [intros [-> ->]; reflexivity|intros H; inversion H; auto].
Qed.

Lemma pos_ltb_spec a b : pos_ltb a b = true <->
  (fst a < fst b)%N \/ (fst a = fst b /\ (snd a < snd b)%N).
Proof.
  unfold pos_ltb. rewrite orb_true_iff, andb_true_iff, !N.ltb_lt, N.eqb_eq. tauto.
Qed.

Lemma pos_ltb_trans a b c : pos_ltb a b = true -> pos_ltb b c = true -> pos_ltb a c = true.
Proof. rewrite !pos_ltb_spec. lia. Qed.

Lemma pos_total a b : pos_ltb a b = false -> pos_ltb b a = false -> a = b.
Proof.
  intros H1 H2. destruct a as [a1 a2], b as [b1 b2].
  destruct (pos_ltb (a1, a2) (b1, b2)) eqn:E1; [discriminate|].
  destruct (pos_ltb (b1, b2) (a1, a2)) eqn:E2; [discriminate|].
  assert (~ ((a1 < b1)%N \/ (a1 = b1 /\ (a2 < b2)%N))) by (rewrite <- (pos_ltb_spec (a1,a2) (b1,b2)); simpl; congruence).
  assert (~ ((b1 < a1)%N \/ (b1 = a1 /\ (b2 < a2)%N))) by (rewrite <- (pos_ltb_spec (b1,b2) (a1,a2)); simpl; congruence).
  f_equal; lia.
Qed.

(* key as a 5-tuple of numbers compared lexicographically *)
Definition key_nums (k : key) : list N :=
  let '(t, ((l1, c1), (l2, c2))) := k in [t; l1; c1; l2; c2].

Fixpoint lex_lt (a b : list N) : Prop :=
  match a, b with
  | x :: a', y :: b' => (x < y)%N \/ (x = y /\ lex_lt a' b')
  | _, _ => False
  end.

Lemma key_ltb_spec a b : key_ltb a b = true <-> lex_lt (key_nums a) (key_nums b).
Proof.
  destruct a as [ta [[l1 c1] [l2 c2]]], b as [tb [[m1 d1] [m2 d2]]]. simpl.
  rewrite orb_true_iff, andb_true_iff, orb_true_iff, andb_true_iff.
  rewrite !pos_ltb_spec, pos_eqb_eq, N.ltb_lt, N.eqb_eq. simpl.
  split.
  - intros [H|[H1 [H|[H2 H3]]]]; [lia| |].
    + destruct H as [H|[H H']]; lia.
    + inversion H2; subst. destruct H3 as [H|[H H']]; lia.
  - intros H. destruct H as [H|[H1 H]]; [auto|]. right. split; [exact H1|].
    destruct H as [H|[H2 H]]; [left; left; exact H|].
    destruct H as [H|[H3 H]]; [left; right; auto|].
    right. split; [subst; reflexivity|]. destruct H as [H|[H4 H]]; [left; exact H|].
    destruct H as [H|[H5 H]]; [right; auto|contradiction].
Qed.

Lemma lex_lt_trans a : forall b c, lex_lt a b -> lex_lt b c -> lex_lt a c.
Proof.
  induction a as [|x a IH]; intros b c; [simpl; tauto|].
  destruct b as [|y b]; [simpl; tauto|]. destruct c as [|z c]; [simpl; tauto|]. simpl.
  intros [H1|[H1 H1']] [H2|[H2 H2']]; try (left; lia).
  right. split; [lia|]. eapply IH; eauto.
Qed.

Lemma lex_lt_irrefl a : ~ lex_lt a a.
Proof. induction a as [|x a IH]; simpl; [tauto|]. intros [H|[_ H]]; [lia|auto]. Qed.

Lemma lex_total a : forall b, length a = length b -> ~ lex_lt a b -> ~ lex_lt b a -> a = b.
Proof.
  induction a as [|x a IH]; intros [|y b] Hl H1 H2; simpl in *; try discriminate; [reflexivity|].
  assert (x = y) by lia. subst. f_equal. apply IH; [lia| |]; intros H; [apply H1|apply H2]; auto.
Qed.

Lemma key_ltb_trans a b c : key_ltb a b = true -> key_ltb b c = true -> key_ltb a c = true.
Proof. rewrite !key_ltb_spec. apply lex_lt_trans. Qed.

Lemma key_ltb_irrefl a : key_ltb a a = false.
Proof.
  destruct (key_ltb a a) eqn:E; [|reflexivity]. apply key_ltb_spec in E.
  exfalso. eapply lex_lt_irrefl; eauto.
Qed.

Lemma key_nums_inj a b : key_nums a = key_nums b -> a = b.
Proof.
  destruct a as [ta [[l1 c1] [l2 c2]]], b as [tb [[m1 d1] [m2 d2]]]. simpl.
  intros H; inversion H; reflexivity.
Qed.

Lemma key_total a b : key_ltb a b = false -> key_ltb b a = false -> a = b.
Proof.
  intros H1 H2. apply key_nums_inj. apply lex_total.
  - destruct a as [ta [[l1 c1] [l2 c2]]], b as [tb [[m1 d1] [m2 d2]]]. reflexivity.
  - rewrite <- key_ltb_spec. congruence.
  - rewrite <- key_ltb_spec. congruence.
Qed.

(* "a is not after b": key a <= key b *)
Definition alt_le (km : keymap) (a b : alt) : Prop := alt_ltb km b a = false.

Lemma alt_le_trans km a b c : alt_le km a b -> alt_le km b c -> alt_le km a c.
Proof.
  unfold alt_le, alt_ltb. intros H1 H2.
  destruct (key_ltb (key_of km c) (key_of km a)) eqn:E; [|reflexivity].
  (* c < a and not (b < a): then c < b or keys b = a ... *)
  destruct (key_ltb (key_of km a) (key_of km b)) eqn:E2.
  - (* a < b, c < a -> c < b: contradiction with H2 *)
    rewrite (key_ltb_trans _ _ _ E E2) in H2. discriminate.
  - assert (key_of km a = key_of km b) by (apply key_total; assumption).
    rewrite H in E. rewrite E in H2. discriminate.
Qed.

Lemma sort_insert_sorted km x l :
  StronglySorted (alt_le km) l -> StronglySorted (alt_le km) (sort_insert (alt_ltb km) x l).
Proof.
  induction 1 as [|e r Hr IH He]; simpl.
  - constructor; [constructor|constructor].
  - destruct (alt_ltb km x e) eqn:E.
    + constructor; [constructor; assumption|].
      assert (Hxe : alt_le km x e).
      { unfold alt_le, alt_ltb in *. destruct (key_ltb (key_of km e) (key_of km x)) eqn:E2; [|reflexivity].
        assert (Hc := key_ltb_trans _ _ _ E E2). rewrite key_ltb_irrefl in Hc. discriminate. }
      constructor; [exact Hxe|].
      rewrite Forall_forall in *. intros y Hy. eapply alt_le_trans; [exact Hxe|apply He; exact Hy].
    + constructor; [exact IH|]. rewrite Forall_forall in *. intros y Hy.
      apply In_sort_insert in Hy. destruct Hy as [->|Hy]; [exact E|apply He; exact Hy].
Qed.

Lemma fold_sort_sorted km l : forall acc, StronglySorted (alt_le km) acc ->
  StronglySorted (alt_le km) (fold_left (fun acc x => sort_insert (alt_ltb km) x acc) l acc).
Proof.
  induction l as [|x r IH]; intros acc H; simpl; [exact H|]. apply IH. apply sort_insert_sorted. exact H.
Qed.

Lemma norm_sorted km l : StronglySorted (alt_le km) (norm km l).
Proof. unfold norm, sort_alts. apply fold_sort_sorted. constructor. Qed.

(* a row is normal: duplicate-free and in source order *)
Definition normal (km : keymap) (r : list alt) : Prop := NoDup r /\ StronglySorted (alt_le km) r.

Lemma norm_normal km l : normal km (norm km l).
Proof. split; [apply NoDup_norm|apply norm_sorted]. Qed.

Lemma single_normal km a : normal km [a].
Proof. split; constructor; auto; constructor. Qed.

(* Two normal rows with the same elements, whose keys are pairwise different, are equal:
   the output is a function of the set of alternatives. *)
Lemma normal_canonical km : forall r1 r2,
  normal km r1 -> normal km r2 -> (forall x, In x r1 <-> In x r2) ->
  (forall x y, In x r1 -> In y r1 -> key_of km x = key_of km y -> x = y) ->
  r1 = r2.
Proof.
  induction r1 as [|a r1 IH]; intros r2 [Hn1 Hs1] [Hn2 Hs2] Hset Hinj.
  - destruct r2 as [|b r2]; [reflexivity|]. exfalso. apply (Hset b). left. reflexivity.
  - destruct r2 as [|b r2]; [exfalso; apply (Hset a); left; reflexivity|].
    inversion Hn1 as [|? ? Ha1 Hn1']; subst. inversion Hn2 as [|? ? Hb2 Hn2']; subst.
    inversion Hs1 as [|? ? Hs1' Hf1]; subst. inversion Hs2 as [|? ? Hs2' Hf2]; subst.
    rewrite Forall_forall in Hf1, Hf2.
    assert (Hab : a = b).
    { destruct (proj1 (Hset a) (or_introl eq_refl)) as [E|Hin]; [auto|].
      destruct (proj2 (Hset b) (or_introl eq_refl)) as [E|Hin2]; [auto|].
      (* b <= a (a in r2 after b) and a <= b (b in r1 after a): same key *)
      assert (H1 : alt_le km b a) by (apply Hf2; exact Hin).
      assert (H2 : alt_le km a b) by (apply Hf1; exact Hin2).
      apply Hinj; [left; reflexivity|right; exact Hin2|].
      unfold alt_le, alt_ltb in *. apply key_total; assumption. }
    subst b. f_equal. apply IH.
    + split; assumption.
    + split; assumption.
    + intros x. split; intros Hx.
      * destruct (proj1 (Hset x) (or_intror Hx)) as [E|H]; [subst; contradiction|exact H].
      * destruct (proj2 (Hset x) (or_intror Hx)) as [E|H]; [subst; contradiction|exact H].
    + intros x y Hx Hy. apply Hinj; right; assumption.
Qed.

(* the undefined marker sorts strictly before every binding *)
Lemma undef_first km b : alt_ltb km AUndef (ADef b) = true.
Proof. unfold alt_ltb, key_of. destruct (PM.find b km) as [[[? ?] [? ?]]|]; reflexivity. Qed.

Lemma normal_undef_head km r : normal km r -> In AUndef r -> exists t, r = AUndef :: t.
Proof.
  intros [_ Hs] Hin. destruct r as [|a t]; [contradiction|].
  destruct a as [|b]; [eauto|]. exfalso.
  inversion Hs as [|? ? _ Hf]; subst. rewrite Forall_forall in Hf.
  destruct Hin as [E|Hin]; [discriminate|]. specialize (Hf _ Hin).
  unfold alt_le in Hf. rewrite undef_first in Hf. discriminate.
Qed.

(* first_name is the least binding of a normal row *)
Lemma first_name_min km r b : normal km r -> first_name r = Some b ->
  In (ADef b) r /\ forall b', In (ADef b') r -> alt_le km (ADef b) (ADef b').
Proof.
  induction r as [|a t IH]; intros [Hn Hs] Hf; simpl in *; [discriminate|].
  inversion Hn; subst. inversion Hs as [|? ? Hs' Hfa]; subst.
  destruct a as [|x].
  - destruct (IH (conj H2 Hs') Hf) as [Hin Hmin]. split; [right; exact Hin|].
    intros b' [E|Hb']; [discriminate|]. apply Hmin. exact Hb'.
  - inversion Hf; subst. split; [left; reflexivity|].
    rewrite Forall_forall in Hfa. intros b' [E|Hb'].
    + inversion E; subst. unfold alt_le, alt_ltb. apply key_ltb_irrefl.
    + apply Hfa. exact Hb'.
Qed.

Lemma first_name_none r : first_name r = None -> forall b, ~ In (ADef b) r.
Proof.
  induction r as [|a t IH]; simpl; intros H b; [tauto|].
  destruct a; [|discriminate]. intros [E|Hin]; [discriminate|]. eapply IH; eauto.
Qed.

(* ---------------------------------------------------------------------------------------------- *)
(* Part 3: instances                                                                                *)
(* ---------------------------------------------------------------------------------------------- *)

(* C17: every row of every environment the evaluation produces is normal *)
Lemma names_at_idx_normal km g fuel f idx e n r :
  names_at_idx (norm km) g fuel f idx = Some e -> PM.find n e = Some r -> normal km r.
Proof.
  intros He Hr.
  assert (H := names_at_idx_rel (norm km) (norm km) (fun r _ => normal km r) (fun _ _ => True)
                 (fun b => single_normal km _) (fun _ _ _ => I) I (fun _ _ _ _ _ _ => I)
                 (fun _ _ _ => norm_normal km _) g fuel f idx).
  rewrite He in H. simpl in H. specialize (H n). rewrite Hr in H. exact H.
Qed.

Lemma query_pure_normal g km fuel q r :
  query_pure g km fuel q = Some (Some r) -> normal km r.
Proof.
  destruct q as [[f loc] n]. unfold query_pure.
  destruct (nth_error (flows g) f) as [fl|]; [|discriminate].
  destruct (names_at_idx (norm km) g fuel f (bisect_idx km fl loc)) as [e|] eqn:E; [|discriminate].
  intros H. inversion H as [H1]. eapply names_at_idx_normal; eauto.
Qed.

(* C13: same graph, same bisect index, two position assignments: rows are equal as sets *)
Definition same_set (r1 r2 : list alt) : Prop := forall x, In x r1 <-> In x r2.

Lemma names_at_idx_same_set km1 km2 g fuel f idx :
  opt_rel (env_rel same_set) (names_at_idx (norm km1) g fuel f idx) (names_at_idx (norm km2) g fuel f idx).
Proof.
  apply (names_at_idx_rel (norm km1) (norm km2) same_set same_set).
  - intros b x. tauto.
  - auto.
  - intros x. tauto.
  - intros x1 x2 y1 y2 H1 H2 x. rewrite !in_app_iff, (H1 x), (H2 x). tauto.
  - intros x y H z. rewrite !In_norm. apply H.
Qed.

Lemma place_graph_ext km1 km2 sfs lps :
  order_equiv km1 km2 sfs -> place_graph km1 sfs lps = place_graph km2 sfs lps.
Proof.
  intros H. unfold place_graph. f_equal. apply map_ext_in. intros sf Hsf.
  unfold place. f_equal. apply build_ext. apply H. exact Hsf.
Qed.

Lemma bisect_idx_ext km1 km2 sfs f sf loc1 loc2 :
  read_equiv km1 km2 sfs f loc1 loc2 -> nth_error sfs f = Some sf ->
  bisect_idx km1 (place km1 sf) loc1 = bisect_idx km2 (place km1 sf) loc2.
Proof.
  intros H Hf. unfold bisect_idx. apply bisect_by_ext. intros b Hb.
  simpl in Hb. apply In_build in Hb. eapply H; eauto.
Qed.

(* C13: the answer at a read is the same set of bindings under two order-equivalent layouts *)
Lemma layout_independent km1 km2 sfs lps fuel f loc1 loc2 n :
  order_equiv km1 km2 sfs -> read_equiv km1 km2 sfs f loc1 loc2 ->
  opt_rel (opt_rel same_set)
    (query_pure (place_graph km1 sfs lps) km1 fuel (f, loc1, n))
    (query_pure (place_graph km2 sfs lps) km2 fuel (f, loc2, n)).
Proof.
  intros Ho Hr. rewrite <- (place_graph_ext km1 km2 sfs lps Ho).
  unfold query_pure. simpl flows. rewrite nth_error_map.
  destruct (nth_error sfs f) as [sf|] eqn:Ef; simpl; [|exact I].
  rewrite <- (bisect_idx_ext km1 km2 sfs f sf loc1 loc2 Hr Ef).
  assert (H := names_at_idx_same_set km1 km2 (place_graph km1 sfs lps) fuel f
                 (bisect_idx km1 (place km1 sf) loc1)).
  destruct (names_at_idx (norm km1) (place_graph km1 sfs lps) fuel f (bisect_idx km1 (place km1 sf) loc1)),
           (names_at_idx (norm km2) (place_graph km1 sfs lps) fuel f (bisect_idx km1 (place km1 sf) loc1));
    simpl in *; try contradiction; auto.
Qed.

Lemma agree_onb_sound dom lt1 lt2 : agree_onb dom lt1 lt2 = true -> agree_on dom lt1 lt2.
Proof.
  unfold agree_onb. rewrite forallb_forall. intros H x y Hx Hy.
  specialize (H x Hx). rewrite forallb_forall in H. specialize (H y Hy).
  apply Bool.eqb_prop. exact H.
Qed.

Lemma order_equivb_sound km1 km2 sfs : order_equivb km1 km2 sfs = true -> order_equiv km1 km2 sfs.
Proof.
  unfold order_equivb. rewrite forallb_forall. intros H sf Hsf. apply agree_onb_sound. apply H. exact Hsf.
Qed.

Lemma read_equivb_sound km1 km2 sfs f loc1 loc2 :
  read_equivb km1 km2 sfs f loc1 loc2 = true -> read_equiv km1 km2 sfs f loc1 loc2.
Proof.
  unfold read_equivb, read_equiv. intros H sf b Hf Hb. rewrite Hf in H.
  rewrite forallb_forall in H. apply Bool.eqb_prop. apply H. exact Hb.
Qed.
