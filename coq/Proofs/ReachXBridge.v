(* Bridge from the analysis without loop-exit edges (Model/Reach.v) to the one with them
   (Model/ReachX.v), for ALL commands: the new analysis only adds alternatives. Hence the
   name-level theorem of C01 (Proofs/SemXProofs.v, every abrupt exit, free raise, any finally)
   carries over to [seenx] / [visiblex] / [e02x]. *)
From Coq Require Import List Bool Arith NArith Lia.
Import ListNotations.
From Supp Require Import Model.PyCore Model.Reach Model.ReachX Model.Sem Model.SemX
  Proofs.ReachProofs Proofs.ReachCorollaries Proofs.SemXProofs Proofs.ReachXProofs.

Lemma an_sub_anx_both :
  (forall c s t, sub s t ->
     sub (an c s) (nrm (anx c t)) /\ forall r, subl (seen c s r) (seenx c t r)) /\
  (forall hs hin hin' acc acc', sub hin hin' -> sub acc (nrm acc') ->
     sub (an_h hs hin acc) (nrm (anx_h hs hin' acc')) /\
     forall r, subl (seen_h hs hin r) (seenx_h hs hin' r)).
Proof.
  apply cmd_hlist_ind.
  - (* Skip *) intros s t H. split; [exact H|intros r a Ha; exact Ha].
  - (* Seq *) intros a IHa b IHb s t H.
    destruct (IHa s t H) as [A1 A2]. destruct (IHb _ _ A1) as [B1 B2].
    split; [exact B1|]. intros r. exact (subl_app _ _ _ _ (A2 r) (B2 r)).
  - (* Bind *) intros d x s t H. split; [|intros r a Ha; exact Ha].
    exact (upd_mono s t x [Some d] H).
  - (* Read *) intros r0 x s t H. split; [exact H|]. intros r a. simpl.
    destruct (N.eqb r r0); [apply H|auto].
  - (* Branch *) intros a IHa b IHb s t H.
    destruct (IHa s t H) as [A1 A2]. destruct (IHb s t H) as [B1 B2].
    split; [exact (join_mono _ _ _ _ A1 B1)|]. intros r. exact (subl_app _ _ _ _ (A2 r) (B2 r)).
  - (* While *) intros tt IHt b IHb e IHe s t H.
    destruct (IHt s t H) as [T1 _]. destruct (IHb _ _ T1) as [B1 _].
    assert (HH : sub (join s (an b (an tt s))) (join t (LF tt b t))).
    { apply join_mono; [exact H|]. eapply sub_trans; [exact B1|]. unfold LF. apply sub_join_l. }
    destruct (IHt _ _ HH) as [T2 T2s]. destruct (IHb _ _ T2) as [_ B2s].
    destruct (IHe _ _ T2) as [E2 E2s].
    split.
    + rewrite anx_while. cbv zeta. eapply sub_trans; [exact E2|]. exact (sub_join_l _ _).
    + intros r. rewrite seenx_while. cbv zeta.
      exact (subl_app _ _ _ _ (T2s r) (subl_app _ _ _ _ (B2s r) (E2s r))).
  - (* For *) intros tg IHt b IHb e IHe s t H.
    destruct (IHt s t H) as [T1 _]. destruct (IHb _ _ T1) as [B1 _].
    assert (HH : sub (join s (an b (an tg s))) (join t (LF tg b t))).
    { apply join_mono; [exact H|]. eapply sub_trans; [exact B1|]. unfold LF. apply sub_join_l. }
    destruct (IHt _ _ HH) as [T2 T2s]. destruct (IHb _ _ T2) as [B2 B2s].
    assert (HE : sub (join s (an b (an tg (join s (an b (an tg s))))))
                     (join t (LF tg b (join t (LF tg b t))))).
    { apply join_mono; [exact H|]. eapply sub_trans; [exact B2|]. unfold LF at 1. apply sub_join_l. }
    destruct (IHe _ _ HE) as [E2 E2s].
    split.
    + rewrite anx_for. cbv zeta. eapply sub_trans; [exact E2|]. exact (sub_join_l _ _).
    + intros r. rewrite seenx_for. cbv zeta.
      exact (subl_app _ _ _ _ (T2s r) (subl_app _ _ _ _ (B2s r) (E2s r))).
  - (* Try *) intros rf b IHb rl hs IHhs e IHe f IHf s t H.
    destruct (IHb s t H) as [B1 B1s]. destruct (IHe _ _ B1) as [E1 E1s].
    destruct (IHhs (join s (an b s)) (join t (nrm (anx b t))) (an e (an b s))
                (nrm (anx e (nrm (anx b t))),
                 join (brk (anx b t)) (brk (anx e (nrm (anx b t)))),
                 join (cnt (anx b t)) (cnt (anx e (nrm (anx b t)))))
                (join_mono _ _ _ _ H B1) E1) as [H1 H1s].
    destruct (IHf _ _ H1) as [F1 F1s].
    split; [exact F1|]. intros r. rewrite seenx_try.
    exact (subl_app _ _ _ _ (B1s r) (subl_app _ _ _ _ (H1s r) (subl_app _ _ _ _ (E1s r) (F1s r)))).
  - (* Exit *) intros [| | |i] s t H; (split; [exact H|intros r a Ha; exact Ha]).
  - (* HNil *) intros hin hin' acc acc' _ Ha. split; [exact Ha|intros r a Hx; exact Hx].
  - (* HCons *) intros ty IHty nm hb IHhb rest IHrest hin hin' acc acc' Hh Ha.
    destruct (IHty _ _ Hh) as [T1 T1s].
    destruct (IHhb _ _ (bind_opt_mono nm _ _ T1)) as [B1 B1s].
    destruct (IHrest hin hin' (join acc (an hb (bind_opt_a nm (an ty hin))))
                (join (nrm acc') (nrm (anx hb (bind_opt_a nm (nrm (anx ty hin'))))),
                 join (brk acc') (brk (anx hb (bind_opt_a nm (nrm (anx ty hin'))))),
                 join (cnt acc') (cnt (anx hb (bind_opt_a nm (nrm (anx ty hin'))))))
                Hh (join_mono _ _ _ _ Ha B1)) as [R1 R1s].
    split; [exact R1|]. intros r.
    exact (subl_app _ _ _ _ (T1s r) (subl_app _ _ _ _ (B1s r) (R1s r))).
Qed.

(* the new analysis only adds alternatives *)
Theorem an_sub_anx : forall c s t, sub s t -> sub (an c s) (nrm (anx c t)).
Proof. intros c s t H. apply (proj1 an_sub_anx_both c s t H). Qed.

Theorem seen_sub_seenx : forall c s t r, sub s t -> subl (seen c s r) (seenx c t r).
Proof. intros c s t r H. apply (proj1 an_sub_anx_both c s t H). Qed.

Lemma an_h_sub_anx_h hs hin hin' acc acc' : sub hin hin' -> sub acc (nrm acc') ->
  sub (an_h hs hin acc) (nrm (anx_h hs hin' acc')).
Proof. intros A B. apply (proj2 an_sub_anx_both hs hin hin' acc acc' A B). Qed.

Lemma visible_visiblex c s t r : sub s t -> visible c s r = true -> visiblex c t r = true.
Proof.
  intros H Hv. unfold visible in Hv. unfold visiblex.
  apply existsb_exists in Hv as [a [Ha Hd]]. apply existsb_exists.
  exists a. split; [exact (seen_sub_seenx c s t r H a Ha)|exact Hd].
Qed.

(* C01 at name level for the analysis supp now performs: whatever way control leaves any
   construct, a name bound at run time when a read executes is visible at that read. *)
Corollary visiblex_any_exit : forall fuel c ds p' tr o ds' r d,
  runX fuel c renv0 ds = DoneX p' tr o ds' -> In (r, Some d) tr ->
  visiblex c aenv0 r = true /\ e02x c aenv0 r = false.
Proof.
  intros fuel c ds p' tr o ds' r d Hr Hin.
  destruct (visible_any_exit fuel c ds p' tr o ds' r d Hr Hin) as [Hv _].
  pose proof (visible_visiblex c aenv0 aenv0 r (sub_refl aenv0) Hv) as Hx.
  split; [exact Hx|]. unfold e02x. unfold visiblex in Hx. rewrite Hx. reflexivity.
Qed.

(* non-vacuity: a free raise inside a loop body with a break, caught by an enclosing try with a
   non-trivial finally - outside okx, inside this corollary *)
Definition ex_any : cmd :=
  (Try false
       (Seq (Bind 1 0)
            (While Skip (Seq (Bind 2 1) (Seq (Branch (Exit KBrk) (Exit (KExc 0))) (Bind 3 2))) Skip))
       false (HCons Skip None (Read 10 1) HNil) Skip (Read 11 0))%N.

Example ex_any_not_okx : okx ex_any = false.
Proof. reflexivity. Qed.

Example ex_any_run :
  match runX 50 ex_any renv0 [1; 1] with
  | DoneX _ tr o ds => tr = [(10%N, Some 2%N); (11%N, Some 1%N)] /\ o = XN /\ ds = []
  | _ => False
  end.
Proof. vm_compute. auto. Qed.

Example ex_any_visiblex : visiblex ex_any aenv0 10%N = true /\ visiblex ex_any aenv0 11%N = true.
Proof. split; reflexivity. Qed.

Print Assumptions an_sub_anx.
Print Assumptions seen_sub_seenx.
Print Assumptions visiblex_any_exit.
