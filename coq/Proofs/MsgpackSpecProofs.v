(* The independent decoder spec_decode against the relation Enc: it reads back every legal
   serialisation (completeness), hence whatever the model's encode writes. *)
From Coq Require Import List Bool Arith NArith ZArith Lia.
Import ListNotations.
From Supp Require Import Model.Msgpack Model.MsgpackSpec Proofs.MsgpackBytes Proofs.MsgpackProofs.
Local Open Scope N_scope.

Ltac Zify.zify_post_hook ::= Z.to_euclidean_division_equations.

Arguments N.mul : simpl never.
Arguments N.add : simpl never.
Arguments N.sub : simpl never.
Arguments N.div : simpl never.
Arguments N.modulo : simpl never.
Arguments N.pow : simpl never.
Arguments N.eqb : simpl never.
Arguments N.leb : simpl never.
Arguments N.ltb : simpl never.
Arguments N.of_nat : simpl never.
Arguments N.to_nat : simpl never.
Arguments Z.of_N : simpl never.
Arguments Z.to_N : simpl never.
Arguments Z.add : simpl never.
Arguments Z.sub : simpl never.
Arguments Z.mul : simpl never.
Arguments Z.modulo : simpl never.
Arguments Z.pow : simpl never.
Arguments be : simpl never.

(* ---------------------------------------------------------------- be_val = unbe *)

Lemma fold_unbe r : forall a,
  fold_left (fun a b => a * 256 + b) r a = a * 256 ^ len r + fold_left (fun a b => a * 256 + b) r 0.
Proof.
  induction r as [|b r IH]; intros a.
  - simpl. rewrite len_nil. change (256 ^ 0) with 1. lia.
  - simpl fold_left. rewrite IH. rewrite (IH (0 * 256 + b)). rewrite len_cons, N.pow_succ_r'. lia.
Qed.

Lemma be_val_unbe l : be_val l = unbe l.
Proof.
  induction l as [|b r IH].
  - reflexivity.
  - simpl be_val. rewrite IH. unfold unbe. simpl fold_left. rewrite (fold_unbe r (0 * 256 + b)). lia.
Qed.

(* ---------------------------------------------------------------- take / num / payload *)

Lemma take_app x : forall rest, take (length x) (x ++ rest) = Some (x, rest).
Proof.
  induction x as [|a x IH]; intros rest; simpl.
  - reflexivity.
  - rewrite IH. reflexivity.
Qed.

Lemma num_be k n rest : n < 256 ^ N.of_nat k -> num k (be k n ++ rest) = Some (n, rest).
Proof.
  intros H. unfold num. rewrite <- (be_length k n) at 1. rewrite take_app, be_val_unbe, unbe_be by exact H.
  reflexivity.
Qed.

Lemma num_be1 n rest : n < 256 -> num 1 (be 1 n ++ rest) = Some (n, rest).
Proof. exact (num_be 1 n rest). Qed.
Lemma num_be2 n rest : n < 65536 -> num 2 (be 2 n ++ rest) = Some (n, rest).
Proof. exact (num_be 2 n rest). Qed.
Lemma num_be4 n rest : n < 4294967296 -> num 4 (be 4 n ++ rest) = Some (n, rest).
Proof. exact (num_be 4 n rest). Qed.
Lemma num_be8 n rest : n < 18446744073709551616 -> num 8 (be 8 n ++ rest) = Some (n, rest).
Proof. exact (num_be 8 n rest). Qed.

Lemma firstn_len_app {A} (x rest : list A) : firstn (length x) (x ++ rest) = x.
Proof. induction x; simpl; [reflexivity|]. f_equal. assumption. Qed.

Lemma skipn_len_app {A} (x rest : list A) : skipn (length x) (x ++ rest) = rest.
Proof. induction x; simpl; auto. Qed.

Lemma payload_app s rest : payload (len s) (s ++ rest) = Some (s, rest).
Proof.
  unfold payload. rewrite len_app. destruct (N.ltb_spec (len s + len rest) (len s)); [lia|].
  unfold len. rewrite Nat2N.id, firstn_len_app, skipn_len_app. reflexivity.
Qed.

(* ---------------------------------------------------------------- one step of spec_dec *)

Definition spec_step (d : bytes -> option (value * bytes)) (j : nat) (c : N) (r : bytes)
  : option (value * bytes) :=
  let uint k := bind (num k r) (fun ur => Some (Int (Z.of_N (fst ur)), snd ur)) in
  let sint k bits := bind (num k r) (fun ur => Some (Int (twos bits (fst ur)), snd ur)) in
  let str n r := bind (payload n r) (fun sr => Some (Str (fst sr), snd sr)) in
  let bin n r := bind (payload n r) (fun sr => Some (Bin (fst sr), snd sr)) in
  let ext n r :=
    bind (num 1 r) (fun tr =>
    if fst tr <? 128 then bind (payload n (snd tr)) (fun dr => Some (Ext (fst tr) (fst dr), snd dr))
    else None) in
  let arr n r := bind (spec_items d j n r) (fun lr => Some (Arr (fst lr), snd lr)) in
  let map n r := bind (spec_pairs d j n r) (fun lr => Some (Map (fst lr), snd lr)) in
  match fmt_of c with
  | PosFixint => Some (Int (Z.of_N c), r)
  | NegFixint => Some (Int (Z.of_N c - 256), r)
  | NilF => Some (Nil, r)
  | NeverUsed => None
  | FalseF => Some (Bool false, r)
  | TrueF => Some (Bool true, r)
  | Uint8 => uint 1%nat | Uint16 => uint 2%nat | Uint32 => uint 4%nat | Uint64 => uint 8%nat
  | Int8 => sint 1%nat 8 | Int16 => sint 2%nat 16 | Int32 => sint 4%nat 32 | Int64 => sint 8%nat 64
  | Float32 => bind (num 4 r) (fun ur => Some (F64 (widen32 (fst ur)), snd ur))
  | Float64 => bind (num 8 r) (fun ur => Some (F64 (fst ur), snd ur))
  | FixStr => str (c - 160) r
  | Str8 => bind (num 1 r) (fun nr => str (fst nr) (snd nr))
  | Str16 => bind (num 2 r) (fun nr => str (fst nr) (snd nr))
  | Str32 => bind (num 4 r) (fun nr => str (fst nr) (snd nr))
  | Bin8 => bind (num 1 r) (fun nr => bin (fst nr) (snd nr))
  | Bin16 => bind (num 2 r) (fun nr => bin (fst nr) (snd nr))
  | Bin32 => bind (num 4 r) (fun nr => bin (fst nr) (snd nr))
  | FixExt1 => ext 1 r | FixExt2 => ext 2 r | FixExt4 => ext 4 r
  | FixExt8 => ext 8 r | FixExt16 => ext 16 r
  | Ext8 => bind (num 1 r) (fun nr => ext (fst nr) (snd nr))
  | Ext16 => bind (num 2 r) (fun nr => ext (fst nr) (snd nr))
  | Ext32 => bind (num 4 r) (fun nr => ext (fst nr) (snd nr))
  | FixArray => arr (c - 144) r
  | Array16 => bind (num 2 r) (fun nr => arr (fst nr) (snd nr))
  | Array32 => bind (num 4 r) (fun nr => arr (fst nr) (snd nr))
  | FixMap => map (c - 128) r
  | Map16 => bind (num 2 r) (fun nr => map (fst nr) (snd nr))
  | Map32 => bind (num 4 r) (fun nr => map (fst nr) (snd nr))
  end.

Lemma spec_dec_S f c r : spec_dec (S f) (c :: r) = spec_step (spec_dec f) f c r.
Proof. reflexivity. Qed.

Lemma spec_dec_nil f : spec_dec f [] = None.
Proof. destruct f; reflexivity. Qed.

Lemma spec_items_0 d j bs : spec_items d j 0 bs = Some ([], bs).
Proof. destruct j; reflexivity. Qed.

Lemma spec_items_S d j n bs : n <> 0 ->
  spec_items d (S j) n bs =
  bind (d bs) (fun vr => bind (spec_items d j (n - 1) (snd vr)) (fun lr => Some (fst vr :: fst lr, snd lr))).
Proof. intros Hn. simpl spec_items. destruct (N.eqb_spec n 0); [contradiction|reflexivity]. Qed.

Lemma spec_pairs_0 d j bs : spec_pairs d j 0 bs = Some ([], bs).
Proof. destruct j; reflexivity. Qed.

Lemma spec_pairs_S d j n bs : n <> 0 ->
  spec_pairs d (S j) n bs =
  bind (d bs) (fun kr => bind (d (snd kr)) (fun vr =>
  bind (spec_pairs d j (n - 1) (snd vr)) (fun lr => Some ((fst kr, fst vr) :: fst lr, snd lr)))).
Proof. intros Hn. simpl spec_pairs. destruct (N.eqb_spec n 0); [contradiction|reflexivity]. Qed.

(* fmt_of on the fix ranges *)
Ltac fmt_tac :=
  unfold fmt_of;
  repeat match goal with
         | |- context [if ?a =? ?b then _ else _] => destruct (N.eqb_spec a b); try lia
         end;
  try reflexivity.

Lemma fmt_posfix c : c < 128 -> fmt_of c = PosFixint.
Proof. intros H. fmt_tac. Qed.
Lemma fmt_fixmap n : n < 16 -> fmt_of (128 + n) = FixMap.
Proof. intros H. fmt_tac. Qed.
Lemma fmt_fixarr n : n < 16 -> fmt_of (144 + n) = FixArray.
Proof. intros H. fmt_tac. Qed.
Lemma fmt_fixstr n : n < 32 -> fmt_of (160 + n) = FixStr.
Proof. intros H. fmt_tac. Qed.
Lemma fmt_negfix c : 224 <= c < 256 -> fmt_of c = NegFixint.
Proof. intros H. fmt_tac. Qed.

(* ---------------------------------------------------------------- completeness *)

Definition S_Enc (v : value) (b : bytes) : Prop :=
  forall rest f, (length (b ++ rest) < f)%nat -> spec_dec f (b ++ rest) = Some (v, rest).

Definition S_EncList (l : list value) (bs : bytes) : Prop :=
  forall rest f j, (length (bs ++ rest) < f)%nat -> (length (bs ++ rest) < j)%nat ->
  spec_items (spec_dec f) j (len l) (bs ++ rest) = Some (l, rest).

Definition S_EncPairs (kvs : list (value * value)) (bs : bytes) : Prop :=
  forall rest f j, (length (bs ++ rest) < f)%nat -> (length (bs ++ rest) < j)%nat ->
  spec_pairs (spec_dec f) j (len kvs) (bs ++ rest) = Some (kvs, rest).

Lemma S_Enc_nonempty v b : S_Enc v b -> (1 <= length b)%nat.
Proof.
  intros H. destruct b as [|x b]; [|simpl; lia].
  specialize (H [] 1%nat (Nat.lt_0_succ 0)). simpl in H. discriminate H.
Qed.

(* open one step on a literal first byte whose format is F *)
Ltac step_lit code F :=
  rewrite <- app_comm_cons; rewrite spec_dec_S; unfold spec_step; change (fmt_of code) with F; cbv beta iota zeta.

Ltac twos_lit :=
  unfold twos;
  change (Z.of_N 8 - 1)%Z with 7%Z; change (Z.of_N 16 - 1)%Z with 15%Z;
  change (Z.of_N 32 - 1)%Z with 31%Z; change (Z.of_N 64 - 1)%Z with 63%Z;
  change (Z.of_N 8) with 8%Z; change (Z.of_N 16) with 16%Z;
  change (Z.of_N 32) with 32%Z; change (Z.of_N 64) with 64%Z;
  change (2 ^ 7)%Z with 128%Z; change (2 ^ 8)%Z with 256%Z;
  change (2 ^ 15)%Z with 32768%Z; change (2 ^ 16)%Z with 65536%Z;
  change (2 ^ 31)%Z with 2147483648%Z; change (2 ^ 32)%Z with 4294967296%Z;
  change (2 ^ 63)%Z with 9223372036854775808%Z; change (2 ^ 64)%Z with 18446744073709551616%Z.

Lemma spec_int z b : IntEnc z b -> S_Enc (Int z) b.
Proof.
  intros H rest f Hf. destruct f as [|f]; [inversion Hf|].
  destruct H as [z Hz|z Hz|z Hz|z Hz|z Hz|z Hz|z Hz|z Hz|z Hz|z Hz].
  - simpl app. rewrite spec_dec_S. unfold spec_step. rewrite fmt_posfix by lia.
    do 3 f_equal. lia.
  - simpl app. rewrite spec_dec_S. unfold spec_step. rewrite fmt_negfix by lia.
    do 3 f_equal. lia.
  - step_lit 204 Uint8. rewrite num_be1 by lia. simpl. do 3 f_equal. lia.
  - step_lit 205 Uint16. rewrite num_be2 by lia. simpl. do 3 f_equal. lia.
  - step_lit 206 Uint32. rewrite num_be4 by lia. simpl. do 3 f_equal. lia.
  - step_lit 207 Uint64. rewrite num_be8 by lia. simpl. do 3 f_equal. lia.
  - step_lit 208 Int8. rewrite num_be1 by lia. simpl. do 3 f_equal. twos_lit. lia.
  - step_lit 209 Int16. rewrite num_be2 by lia. simpl. do 3 f_equal. twos_lit. lia.
  - step_lit 210 Int32. rewrite num_be4 by lia. simpl. do 3 f_equal. twos_lit. lia.
  - step_lit 211 Int64. rewrite num_be8 by lia. simpl. do 3 f_equal. twos_lit. lia.
Qed.

Lemma spec_complete_mut :
  (forall v b, Enc v b -> S_Enc v b) /\
  (forall l bs, EncList l bs -> S_EncList l bs) /\
  (forall kvs bs, EncPairs kvs bs -> S_EncPairs kvs bs).
Proof.
  apply Enc_mutind; unfold S_EncList, S_EncPairs.
  - intros rest f Hf. destruct f; [inversion Hf|]. reflexivity.
  - intros rest f Hf. destruct f; [inversion Hf|]. reflexivity.
  - intros rest f Hf. destruct f; [inversion Hf|]. reflexivity.
  - intros z b H. apply spec_int. exact H.
  - intros x Hx rest f Hf. destruct f; [inversion Hf|].
    step_lit 203 Float64. rewrite num_be8 by exact Hx. reflexivity.
  - intros x Hx rest f Hf. destruct f; [inversion Hf|].
    step_lit 202 Float32. rewrite num_be4 by exact Hx. reflexivity.
  - (* str *)
    intros s h Hh rest f Hf. destruct f; [inversion Hf|]. rewrite <- app_assoc.
    assert (Hbody : bind (payload (len s) (s ++ rest)) (fun sr => Some (Str (fst sr), snd sr)) = Some (Str s, rest))
      by (rewrite payload_app; reflexivity).
    destruct Hh as [n Hn|n Hn|n Hn|n Hn].
    + simpl app. rewrite spec_dec_S. unfold spec_step. rewrite fmt_fixstr by exact Hn.
      replace (160 + n - 160) with n by lia. exact Hbody.
    + step_lit 217 Str8. rewrite num_be1 by exact Hn. simpl. exact Hbody.
    + step_lit 218 Str16. rewrite num_be2 by exact Hn. simpl. exact Hbody.
    + step_lit 219 Str32. rewrite num_be4 by exact Hn. simpl. exact Hbody.
  - (* bin *)
    intros s h Hh rest f Hf. destruct f; [inversion Hf|]. rewrite <- app_assoc.
    assert (Hbody : bind (payload (len s) (s ++ rest)) (fun sr => Some (Bin (fst sr), snd sr)) = Some (Bin s, rest))
      by (rewrite payload_app; reflexivity).
    destruct Hh as [n Hn|n Hn|n Hn].
    + step_lit 196 Bin8. rewrite num_be1 by exact Hn. simpl. exact Hbody.
    + step_lit 197 Bin16. rewrite num_be2 by exact Hn. simpl. exact Hbody.
    + step_lit 198 Bin32. rewrite num_be4 by exact Hn. simpl. exact Hbody.
  - (* ext *)
    intros ty d h Hty Hh rest f Hf. destruct f; [inversion Hf|]. rewrite <- app_assoc.
    assert (Hbody : forall n, n = len d ->
              bind (num 1 (ty :: d ++ rest)) (fun tr =>
                if fst tr <? 128
                then bind (payload n (snd tr)) (fun dr => Some (Ext (fst tr) (fst dr), snd dr))
                else None) = Some (Ext ty d, rest)).
    { intros n ->. replace (ty :: d ++ rest) with (be 1 ty ++ (d ++ rest)) by (rewrite be1 by lia; reflexivity).
      rewrite num_be1 by lia. simpl. destruct (N.ltb_spec ty 128); [|lia].
      rewrite payload_app. reflexivity. }
    inversion Hh as [E|E|E|E|E|n Hn E|n Hn E|n Hn E]; subst h.
    + step_lit 212 FixExt1. apply Hbody. congruence.
    + step_lit 213 FixExt2. apply Hbody. congruence.
    + step_lit 214 FixExt4. apply Hbody. congruence.
    + step_lit 215 FixExt8. apply Hbody. congruence.
    + step_lit 216 FixExt16. apply Hbody. congruence.
    + step_lit 199 Ext8. rewrite num_be1 by lia. simpl. apply Hbody. reflexivity.
    + step_lit 200 Ext16. rewrite num_be2 by lia. simpl. apply Hbody. reflexivity.
    + step_lit 201 Ext32. rewrite num_be4 by lia. simpl. apply Hbody. reflexivity.
  - (* arr *)
    intros l h b Hh _ IH rest f Hf. destruct f; [inversion Hf|]. rewrite <- app_assoc.
    assert (Hbody : bind (spec_items (spec_dec f) f (len l) (b ++ rest)) (fun lr => Some (Arr (fst lr), snd lr))
                    = Some (Arr l, rest)).
    { rewrite IH; [reflexivity| |]; destruct Hh; simpl in Hf; rewrite ?app_length in *; simpl in Hf; lia. }
    destruct Hh as [n Hn|n Hn|n Hn].
    + simpl app. rewrite spec_dec_S. unfold spec_step. rewrite fmt_fixarr by exact Hn.
      replace (144 + n - 144) with n by lia. exact Hbody.
    + step_lit 220 Array16. rewrite num_be2 by exact Hn. simpl. exact Hbody.
    + step_lit 221 Array32. rewrite num_be4 by exact Hn. simpl. exact Hbody.
  - (* map *)
    intros kvs h b Hh _ IH rest f Hf. destruct f; [inversion Hf|]. rewrite <- app_assoc.
    assert (Hbody : bind (spec_pairs (spec_dec f) f (len kvs) (b ++ rest)) (fun lr => Some (Map (fst lr), snd lr))
                    = Some (Map kvs, rest)).
    { rewrite IH; [reflexivity| |]; destruct Hh; simpl in Hf; rewrite ?app_length in *; simpl in Hf; lia. }
    destruct Hh as [n Hn|n Hn|n Hn].
    + simpl app. rewrite spec_dec_S. unfold spec_step. rewrite fmt_fixmap by exact Hn.
      replace (128 + n - 128) with n by lia. exact Hbody.
    + step_lit 222 Map16. rewrite num_be2 by exact Hn. simpl. exact Hbody.
    + step_lit 223 Map32. rewrite num_be4 by exact Hn. simpl. exact Hbody.
  - intros rest f j _ _. apply spec_items_0.
  - intros v l b bs _ IHv _ IHl rest f j Hf Hj.
    destruct j as [|j]; [inversion Hj|].
    pose proof (S_Enc_nonempty _ _ IHv) as Hb.
    rewrite len_cons, spec_items_S by lia. rewrite <- app_assoc.
    rewrite <- app_assoc in Hf, Hj.
    rewrite (IHv (bs ++ rest) f Hf). simpl bind. simpl snd. simpl fst.
    replace (N.succ (len l) - 1) with (len l) by lia.
    rewrite app_length in Hf, Hj.
    rewrite (IHl rest f j) by lia. reflexivity.
  - intros rest f j _ _. apply spec_pairs_0.
  - intros k v l bk bv bs _ IHk _ IHv _ IHl rest f j Hf Hj.
    destruct j as [|j]; [inversion Hj|].
    pose proof (S_Enc_nonempty _ _ IHk) as Hbk.
    rewrite len_cons, spec_pairs_S by lia. rewrite <- !app_assoc in *.
    rewrite (IHk _ f Hf). simpl bind. simpl snd. simpl fst.
    rewrite !app_length in Hf, Hj.
    rewrite (IHv _ f) by (rewrite !app_length; lia). simpl bind. simpl snd. simpl fst.
    replace (N.succ (len l) - 1) with (len l) by lia.
    rewrite (IHl rest f j) by (rewrite !app_length; lia). reflexivity.
Qed.

Theorem spec_complete v b : Enc v b -> forall rest, spec_decode (b ++ rest) = Some (v, rest).
Proof. intros H rest. unfold spec_decode. apply (proj1 spec_complete_mut v b H). lia. Qed.

(* the independent decoder reads back what the encoder wrote *)
Theorem spec_reads_back v b : wf v = true -> encode v = Some b -> spec_decode b = Some (v, []).
Proof.
  intros Hwf H. rewrite <- (app_nil_r b). apply spec_complete. apply encode_conforms; assumption.
Qed.
