(* Lemmas about Model/Layout.v: insert_loc / bisect depend on positions only through the outcomes
   of the comparisons they make. *)
From Coq Require Import List Bool Arith NArith Lia.
Import ListNotations.
From Supp Require Import Model.Layout.

Lemma bisect_by_ext {A} (gt1 gt2 : A -> bool) l :
  (forall e, In e l -> gt1 e = gt2 e) -> bisect_by gt1 l = bisect_by gt2 l.
Proof.
  induction l as [|e r IH]; intros H; simpl; [reflexivity|].
  rewrite (H e (or_introl eq_refl)). destruct (gt2 e); [reflexivity|].
  f_equal. apply IH. intros x Hx. apply H. right. exact Hx.
Qed.

Lemma In_insert_at {A} (x y : A) : forall i l, In y (insert_at i x l) <-> y = x \/ In y l.
Proof.
  induction i as [|i IH]; intros l; simpl.
  - split; intros [H|H]; auto.
  - destruct l as [|e r]; simpl.
    + split; intros H; intuition.
    + rewrite IH. split; intros H; intuition.
Qed.

Lemma last_opt_In {A} (l : list A) e : last_opt l = Some e -> In e l.
Proof.
  induction l as [|a r IH]; simpl; [discriminate|].
  destruct r as [|b r'].
  - intros H; inversion H; auto.
  - intros H. right. apply IH. exact H.
Qed.

Lemma In_insert_loc {A} (lt : A -> A -> bool) l x y :
  In y (insert_loc lt l x) <-> y = x \/ In y l.
Proof.
  unfold insert_loc. destruct (last_opt l) as [e|].
  - destruct (lt e x).
    + rewrite in_app_iff. simpl. intuition.
    + apply In_insert_at.
  - apply In_insert_at.
Qed.

Lemma insert_loc_ext {A} (lt1 lt2 : A -> A -> bool) l x :
  agree_on (x :: l) lt1 lt2 -> insert_loc lt1 l x = insert_loc lt2 l x.
Proof.
  intros H. unfold insert_loc.
  assert (Hb : bisect lt1 l x = bisect lt2 l x).
  { unfold bisect. apply bisect_by_ext. intros e He. apply H; simpl; auto. }
  destruct (last_opt l) as [e|] eqn:E.
  - rewrite (H e x); [|right; apply last_opt_In; exact E|left; reflexivity].
    rewrite Hb. reflexivity.
  - rewrite Hb. reflexivity.
Qed.

Lemma fold_insert_ext {A} (lt1 lt2 : A -> A -> bool) created : forall acc,
  agree_on (acc ++ created) lt1 lt2 ->
  fold_left (insert_loc lt1) created acc = fold_left (insert_loc lt2) created acc.
Proof.
  induction created as [|x r IH]; intros acc H; simpl; [reflexivity|].
  rewrite (insert_loc_ext lt1 lt2 acc x).
  - apply IH. intros a b Ha Hb. apply H; rewrite in_app_iff in *; simpl.
    + destruct Ha as [Ha|Ha]; [apply In_insert_loc in Ha; destruct Ha; subst; auto|auto].
    + destruct Hb as [Hb|Hb]; [apply In_insert_loc in Hb; destruct Hb; subst; auto|auto].
  - intros a b Ha Hb. apply H; rewrite in_app_iff; simpl in *.
    + destruct Ha; subst; auto.
    + destruct Hb; subst; auto.
Qed.

(* the list a flow holds after its bindings were added is determined by the comparison outcomes *)
Lemma build_ext {A} (lt1 lt2 : A -> A -> bool) created :
  agree_on created lt1 lt2 -> build lt1 created = build lt2 created.
Proof. intros H. unfold build. apply fold_insert_ext. exact H. Qed.

Lemma In_fold_insert {A} (lt : A -> A -> bool) created : forall acc y,
  In y (fold_left (insert_loc lt) created acc) <-> In y acc \/ In y created.
Proof.
  induction created as [|x r IH]; intros acc y; simpl; [tauto|].
  rewrite IH, In_insert_loc. intuition.
Qed.

Lemma In_build {A} (lt : A -> A -> bool) created y : In y (build lt created) <-> In y created.
Proof. unfold build. rewrite In_fold_insert. simpl. tauto. Qed.
