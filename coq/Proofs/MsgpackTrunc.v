(* Truncation: every proper prefix of a legal encoding of a well-formed value is refused with
   Insufficient (InsufficientDataException), and decode never runs out of fuel. *)
From Coq Require Import List Bool Arith NArith ZArith Lia.
Import ListNotations.
From Supp Require Import Model.Msgpack Model.MsgpackSpec Proofs.MsgpackBytes Proofs.MsgpackProofs.
Local Open Scope N_scope.

Arguments N.eqb : simpl never.
Arguments N.leb : simpl never.
Arguments N.ltb : simpl never.
Arguments N.of_nat : simpl never.
Arguments be : simpl never.
Arguments utf8_valid : simpl never.

Definition Q_Enc (v : value) (b : bytes) : Prop :=
  wf v = true -> forall p f, sprefix p b -> (length p < f)%nat -> dec f p = Err Insufficient.

Definition Q_EncList (l : list value) (bs : bytes) : Prop :=
  forallb wf l = true ->
  forall p f j, sprefix p bs -> (length p < f)%nat -> (length p < j)%nat ->
  items (dec f) j (len l) p = Err Insufficient.

Definition Q_EncPairs (kvs : list (value * value)) (bs : bytes) : Prop :=
  forallb (fun kv => wf (fst kv) && wf (snd kv)) kvs = true ->
  forallb (fun kv => hashable (fst kv)) kvs = true ->
  forall acc p f j,
    distinct_keys (map fst acc ++ map fst kvs) = true ->
    sprefix p bs -> (length p < f)%nat -> (length p < j)%nat ->
    pairs (dec f) j (len kvs) acc p = Err Insufficient.

Lemma single_trunc c p f : sprefix p [c] -> (length p < f)%nat -> dec f p = Err Insufficient.
Proof.
  intros Hp Hf. rewrite (sprefix_single _ _ Hp) in *. destruct f; [inversion Hf|]. apply dec_nil.
Qed.

Lemma truncation_mut :
  (forall v b, Enc v b -> Q_Enc v b) /\
  (forall l bs, EncList l bs -> Q_EncList l bs) /\
  (forall kvs bs, EncPairs kvs bs -> Q_EncPairs kvs bs).
Proof.
  apply Enc_mutind; unfold Q_Enc, Q_EncList, Q_EncPairs.
  - intros _ p f. apply single_trunc.
  - intros _ p f. apply single_trunc.
  - intros _ p f. apply single_trunc.
  - intros z b H _. apply (scalar_trunc _ _ _ _ (int_enc_ok _ _ H)). exact step_integer.
  - intros x Hx _. apply (scalar_trunc _ _ _ _ (f64_enc_ok _ Hx)). exact step_float.
  - intros x Hx _. apply (scalar_trunc _ _ _ _ (f32_enc_ok _ Hx)). exact step_float.
  - (* str *)
    intros s h Hh _ p f Hp Hf.
    destruct (str_hdr _ _ Hh) as (c & t & -> & Hd & Hok & Hshort).
    destruct f as [|f]; [inversion Hf|]. simpl app in Hp.
    destruct (sprefix_cons_inv _ _ _ Hp) as [->|[p' [-> Hp']]]; [apply dec_nil|].
    rewrite dec_S, (step_string _ _ _ _ Hd). unfold unpack_string.
    destruct (sprefix_app _ _ _ Hp') as [Ht|[p'' [-> Hs]]].
    + rewrite (Hshort _ Ht). reflexivity.
    + rewrite Hok, rd_short by (apply sprefix_len; exact Hs). reflexivity.
  - (* bin *)
    intros s h Hh _ p f Hp Hf.
    destruct (bin_hdr _ _ Hh) as (c & t & -> & Hd & Hok & Hshort).
    destruct f as [|f]; [inversion Hf|]. simpl app in Hp.
    destruct (sprefix_cons_inv _ _ _ Hp) as [->|[p' [-> Hp']]]; [apply dec_nil|].
    rewrite dec_S, (step_binary _ _ _ _ Hd). unfold unpack_binary.
    destruct (sprefix_app _ _ _ Hp') as [Ht|[p'' [-> Hs]]].
    + rewrite (Hshort _ Ht). reflexivity.
    + rewrite Hok, rd_short by (apply sprefix_len; exact Hs). reflexivity.
  - (* ext *)
    intros ty d h Hty Hh _ p f Hp Hf.
    destruct (ext_hdr _ _ Hh) as (c & t & -> & Hd & Hok & Hshort).
    destruct f as [|f]; [inversion Hf|]. simpl app in Hp.
    destruct (sprefix_cons_inv _ _ _ Hp) as [->|[p' [-> Hp']]]; [apply dec_nil|].
    rewrite dec_S, (step_ext _ _ _ _ Hd). unfold unpack_ext.
    destruct (sprefix_app _ _ _ Hp') as [Ht|[p'' [-> Hs]]].
    + rewrite (Hshort _ Ht). reflexivity.
    + rewrite Hok.
      destruct (sprefix_cons_inv _ _ _ Hs) as [->|[p3 [-> Hp3]]].
      * reflexivity.
      * replace (ty :: p3) with (be 1 ty ++ p3) by (rewrite be1 by lia; reflexivity).
        rewrite rd_uint_be1 by lia. rewrite rd_short by (apply sprefix_len; exact Hp3). reflexivity.
  - (* arr *)
    intros l h b Hh _ IH Hwf p f Hp Hf. rewrite wf_arr in Hwf.
    apply andb_true_iff in Hwf. destruct Hwf as [Hwf _].
    destruct (arr_hdr _ _ Hh) as (c & t & -> & Hd & Hok & Hshort).
    destruct f as [|f]; [inversion Hf|]. simpl app in Hp.
    destruct (sprefix_cons_inv _ _ _ Hp) as [->|[p' [-> Hp']]]; [apply dec_nil|].
    rewrite dec_S, (step_array _ _ _ _ Hd).
    destruct (sprefix_app _ _ _ Hp') as [Ht|[p'' [-> Hs]]].
    + rewrite (Hshort _ Ht). reflexivity.
    + rewrite Hok. simpl in Hf. rewrite app_length in Hf.
      rewrite (IH Hwf p'' f f Hs) by lia. reflexivity.
  - (* map *)
    intros kvs h b Hh _ IH Hwf p f Hp Hf. rewrite wf_map in Hwf.
    apply andb_true_iff in Hwf. destruct Hwf as [Hwf _].
    apply andb_true_iff in Hwf. destruct Hwf as [Hwf Hdist].
    apply andb_true_iff in Hwf. destruct Hwf as [Hwf Hhash].
    destruct (map_hdr _ _ Hh) as (c & t & -> & Hd & Hok & Hshort).
    destruct f as [|f]; [inversion Hf|]. simpl app in Hp.
    destruct (sprefix_cons_inv _ _ _ Hp) as [->|[p' [-> Hp']]]; [apply dec_nil|].
    rewrite dec_S, (step_map _ _ _ _ Hd).
    destruct (sprefix_app _ _ _ Hp') as [Ht|[p'' [-> Hs]]].
    + rewrite (Hshort _ Ht). reflexivity.
    + rewrite Hok. simpl in Hf. rewrite app_length in Hf.
      rewrite (IH Hwf Hhash [] p'' f f Hdist Hs) by lia. reflexivity.
  - (* list nil *) intros _ p f j Hp. exfalso. eapply sprefix_nil; eassumption.
  - (* list cons *)
    intros v l b bs HEv IHv _ IHl Hwf p f j Hp Hf Hj. simpl in Hwf.
    apply andb_true_iff in Hwf. destruct Hwf as [Hv Hl].
    destruct j as [|j]; [inversion Hj|].
    rewrite len_cons, items_S by lia.
    destruct (sprefix_app _ _ _ Hp) as [Hb|[p' [-> Hs]]].
    + rewrite (IHv Hv p f Hb Hf). reflexivity.
    + pose proof (proj1 accepts_mut _ _ HEv) as Hacc0.
      pose proof (P_Enc_nonempty _ _ Hacc0 Hv) as Hne.
      pose proof (Hacc0 Hv) as Hacc.
      rewrite (Hacc p' f Hf). rewrite N.pred_succ.
      rewrite app_length in Hf, Hj.
      rewrite (IHl Hl p' f j Hs) by lia. reflexivity.
  - (* pairs nil *) intros _ _ acc p f j _ Hp. exfalso. eapply sprefix_nil; eassumption.
  - (* pairs cons *)
    intros k v l bk bv bs HEk IHk HEv IHv _ IHl Hwf Hhash acc p f j Hdist Hp Hf Hj.
    simpl in Hwf, Hhash.
    apply andb_true_iff in Hwf. destruct Hwf as [Hkv Hl].
    apply andb_true_iff in Hkv. destruct Hkv as [Hk Hv].
    apply andb_true_iff in Hhash. destruct Hhash as [Hhk Hhl].
    destruct j as [|j]; [inversion Hj|].
    rewrite len_cons, pairs_S by lia.
    destruct (sprefix_app _ _ _ Hp) as [Hb|[p' [-> Hs]]].
    + rewrite (IHk Hk p f Hb Hf). reflexivity.
    + pose proof (proj1 accepts_mut _ _ HEk) as Hacck0.
      pose proof (P_Enc_nonempty _ _ Hacck0 Hk) as Hnek.
      pose proof (Hacck0 Hk) as Hacck.
      rewrite (Hacck p' f Hf).
      simpl map in Hdist.
      assert (Hfresh : key_in k acc = false) by (eapply key_in_fresh; eassumption).
      assert (Hkc : key_check k acc = None).
      { unfold key_check. destruct (is_arr k); [reflexivity|]. rewrite Hhk, Hfresh. reflexivity. }
      rewrite Hkc. rewrite app_length in Hf, Hj.
      destruct (sprefix_app _ _ _ Hs) as [Hbv|[p'' [-> Hs']]].
      * rewrite (IHv Hv p' f Hbv) by lia. reflexivity.
      * pose proof (proj1 accepts_mut _ _ HEv) as Haccv0.
        pose proof (P_Enc_nonempty _ _ Haccv0 Hv) as Hnev.
        pose proof (Haccv0 Hv) as Haccv.
        rewrite (Haccv p'' f) by lia.
        rewrite Hhk, N.pred_succ, (dict_set_fresh _ _ _ Hfresh).
        rewrite app_length in Hf, Hj.
        apply (IHl Hl Hhl (acc ++ [(k, v)]) p'' f j); [|exact Hs'|lia|lia].
        rewrite map_app, <- app_assoc. exact Hdist.
Qed.

Theorem truncation v b p : wf v = true -> Enc v b -> sprefix p b -> decode p = Err Insufficient.
Proof.
  intros Hwf H Hp. unfold decode. apply (proj1 truncation_mut v b H Hwf p); [exact Hp|lia].
Qed.

(* ------------------------------------------------------------------------------------------ *)
(* decode consumes at least one byte, and never runs out of fuel (on any input whatsoever)     *)
(* ------------------------------------------------------------------------------------------ *)

Lemma rd_le n bs x r : rd n bs = Ok (x, r) -> (length r <= length bs)%nat.
Proof. intros H. destruct (rd_ok _ _ _ _ H) as [-> _]. rewrite app_length. lia. Qed.

Lemma rd_uint_le k bs u r : rd_uint k bs = Ok (u, r) -> (length r <= length bs)%nat.
Proof. intros H. destruct (rd_uint_ok _ _ _ _ H) as (x & -> & _). rewrite app_length. lia. Qed.

(* a result that is a value with a rest no longer than [n], or an error other than OutOfFuel *)
Definition fine {A} (n : nat) (x : result (A * bytes)) : Prop :=
  match x with
  | Ok (_, r) => (length r <= n)%nat
  | Err e => e <> OutOfFuel
  end.

Lemma fine_rd_uint k bs : fine (length bs) (rd_uint k bs).
Proof.
  destruct (rd_uint k bs) as [[u r]|e] eqn:E; simpl.
  - eapply rd_uint_le; eassumption.
  - rewrite (rd_uint_err _ _ _ E). discriminate.
Qed.

Lemma fine_rd n bs : fine (length bs) (rd n bs).
Proof.
  destruct (rd n bs) as [[u r]|e] eqn:E; simpl.
  - eapply rd_le; eassumption.
  - rewrite (rd_err _ _ _ E). discriminate.
Qed.

Lemma fine_mono {A} n m (x : result (A * bytes)) : fine n x -> (n <= m)%nat -> fine m x.
Proof. destruct x as [[a r]|e]; simpl; intros; [lia|assumption]. Qed.

Ltac fine_cases :=
  repeat match goal with
         | |- context [if ?b then _ else _] => destruct b
         end;
  try (simpl; lia); try (simpl; discriminate).

Ltac fine_uint k r :=
  let H := fresh "H" in
  pose proof (fine_rd_uint k r) as H; destruct (rd_uint k r) as [[? ?]|?]; simpl in *; try assumption; try lia.

Lemma fine_integer c r : fine (length r) (unpack_integer c r).
Proof.
  unfold unpack_integer.
  repeat match goal with
         | |- context [if ?b then _ else _] => destruct b
         end;
  try (simpl; lia); try (simpl; discriminate);
  match goal with |- context [rd_uint ?k r] => fine_uint k r end.
Qed.

Lemma fine_float c r : fine (length r) (unpack_float c r).
Proof.
  unfold unpack_float.
  repeat match goal with
         | |- context [if ?b then _ else _] => destruct b
         end;
  try (simpl; discriminate);
  match goal with |- context [rd_uint ?k r] => fine_uint k r end.
Qed.

Lemma fine_length (lenf : N -> bytes -> result (N * bytes)) c r :
  lenf = string_length \/ lenf = binary_length \/ lenf = ext_length \/ lenf = array_length \/ lenf = map_length ->
  fine (length r) (lenf c r).
Proof.
  intros [->|[->|[->|[->| ->]]]];
  unfold string_length, binary_length, ext_length, array_length, map_length;
  repeat match goal with
         | |- context [if ?b then _ else _] => destruct b
         end;
  try (simpl; lia); try (simpl; discriminate); try apply fine_rd_uint.
Qed.

Lemma fine_string c r : fine (length r) (unpack_string c r).
Proof.
  unfold unpack_string.
  pose proof (fine_length string_length c r (or_introl eq_refl)) as H.
  destruct (string_length c r) as [[n r1]|e]; simpl in H; [|exact H].
  pose proof (fine_rd n r1) as H1. destruct (rd n r1) as [[s r2]|e]; simpl in H1; [|exact H1].
  destruct (utf8_valid s); simpl; [lia|discriminate].
Qed.

Lemma fine_binary c r : fine (length r) (unpack_binary c r).
Proof.
  unfold unpack_binary.
  pose proof (fine_length binary_length c r (or_intror (or_introl eq_refl))) as H.
  destruct (binary_length c r) as [[n r1]|e]; simpl in H; [|exact H].
  pose proof (fine_rd n r1) as H1. destruct (rd n r1) as [[s r2]|e]; simpl in H1; [|exact H1].
  simpl. lia.
Qed.

Lemma fine_ext c r : fine (length r) (unpack_ext c r).
Proof.
  unfold unpack_ext.
  pose proof (fine_length ext_length c r (or_intror (or_intror (or_introl eq_refl)))) as H.
  destruct (ext_length c r) as [[n r1]|e]; simpl in H; [|exact H].
  pose proof (fine_rd_uint 1 r1) as H1. destruct (rd_uint 1 r1) as [[ty r2]|e]; simpl in H1; [|exact H1].
  pose proof (fine_rd n r2) as H2. destruct (rd n r2) as [[s r3]|e]; simpl in H2; [|exact H2].
  destruct (ty <=? 127); simpl; [lia|discriminate].
Qed.

(* [d] behaves on every input not longer than m: no OutOfFuel, and a success consumes a byte *)
Definition good (d : bytes -> result (value * bytes)) (m : nat) : Prop :=
  forall bs, (length bs <= m)%nat ->
    match d bs with
    | Ok (_, r) => (length r < length bs)%nat
    | Err e => e <> OutOfFuel
    end.

Lemma fine_items d m : good d m -> forall j n bs, (length bs <= m)%nat -> (length bs < j)%nat ->
  fine (length bs) (items d j n bs).
Proof.
  intros Hd. induction j as [|j IH]; intros n bs Hm Hj; [inversion Hj|].
  destruct (N.eq_dec n 0) as [->|Hn]; [rewrite items_0; simpl; lia|].
  rewrite items_S by exact Hn.
  pose proof (Hd bs Hm) as H. destruct (d bs) as [[v r]|e]; [|exact H].
  assert (Hr : (length r <= m)%nat) by lia.
  assert (Hrj : (length r < j)%nat) by lia.
  pose proof (IH (N.pred n) r Hr Hrj) as H1.
  destruct (items d j (N.pred n) r) as [[l r']|e]; simpl in *; [lia|exact H1].
Qed.

Lemma fine_pairs d m : good d m -> forall j n acc bs, (length bs <= m)%nat -> (length bs < j)%nat ->
  fine (length bs) (pairs d j n acc bs).
Proof.
  intros Hd. induction j as [|j IH]; intros n acc bs Hm Hj; [inversion Hj|].
  destruct (N.eq_dec n 0) as [->|Hn]; [rewrite pairs_0; simpl; lia|].
  rewrite pairs_S by exact Hn.
  pose proof (Hd bs Hm) as H. destruct (d bs) as [[k r]|e]; [|exact H].
  destruct (key_check k acc) as [e|] eqn:Ek.
  { simpl. unfold key_check in Ek. destruct (is_arr k); [discriminate|].
    destruct (negb (hashable k)); [injection Ek as <-; discriminate|].
    destruct (key_in k acc); [injection Ek as <-; discriminate|discriminate]. }
  assert (Hr : (length r <= m)%nat) by lia.
  pose proof (Hd r Hr) as H0. destruct (d r) as [[v r']|e]; [|exact H0].
  destruct (hashable k); [|simpl; discriminate].
  assert (Hr' : (length r' <= m)%nat) by lia.
  assert (Hrj : (length r' < j)%nat) by lia.
  pose proof (IH (N.pred n) (dict_set acc k v) r' Hr' Hrj) as H1.
  destruct (pairs d j (N.pred n) (dict_set acc k v) r') as [[l r'']|e]; simpl in *; [lia|exact H1].
Qed.

Lemma dec_good : forall f, good (dec (S f)) f.
Proof.
  induction f as [|f IH]; intros bs Hbs.
  - destruct bs; [|inversion Hbs]. rewrite dec_nil. discriminate.
  - destruct bs as [|c r]; [rewrite dec_nil; discriminate|].
    rewrite dec_S. simpl length in *.
    assert (Hfine : fine (length r) (dec_step (dec (S f)) (S f) c r)).
    { unfold dec_step. destruct (dispatch c).
      - apply fine_integer.
      - pose proof (fine_length map_length c r (or_intror (or_intror (or_intror (or_intror eq_refl))))) as H.
        destruct (map_length c r) as [[n r1]|e]; simpl in H; [|exact H].
        assert (Hg : good (dec (S f)) (length r1)).
        { intros bs' Hbs'. apply IH. lia. }
        assert (Hlt : (length r1 < S f)%nat) by lia.
        pose proof (fine_pairs _ _ Hg (S f) n [] r1 (le_n _) Hlt) as H1.
        destruct (pairs (dec (S f)) (S f) n [] r1) as [[l r2]|e]; simpl in *; [lia|exact H1].
      - pose proof (fine_length array_length c r (or_intror (or_intror (or_intror (or_introl eq_refl))))) as H.
        destruct (array_length c r) as [[n r1]|e]; simpl in H; [|exact H].
        assert (Hg : good (dec (S f)) (length r1)).
        { intros bs' Hbs'. apply IH. lia. }
        assert (Hlt : (length r1 < S f)%nat) by lia.
        pose proof (fine_items _ _ Hg (S f) n r1 (le_n _) Hlt) as H1.
        destruct (items (dec (S f)) (S f) n r1) as [[l r2]|e]; simpl in *; [lia|exact H1].
      - apply fine_string.
      - destruct (c =? 192); simpl; [lia|discriminate].
      - destruct (c =? 193); simpl; discriminate.
      - destruct (c =? 194); [simpl; lia|]. destruct (c =? 195); simpl; [lia|discriminate].
      - apply fine_binary.
      - apply fine_ext.
      - apply fine_float. }
    destruct (dec_step (dec (S f)) (S f) c r) as [[v r']|e]; simpl in Hfine; [lia|exact Hfine].
Qed.

Theorem decode_never_out_of_fuel bs : decode bs <> Err OutOfFuel.
Proof.
  unfold decode. pose proof (dec_good (length bs) bs (le_n _)) as H.
  destruct (dec (S (length bs)) bs) as [[v r]|e]; [discriminate|].
  intros E. injection E as ->. apply H. reflexivity.
Qed.

Theorem decode_consumes bs v r : decode bs = Ok (v, r) -> (length r < length bs)%nat.
Proof.
  unfold decode. intros E. pose proof (dec_good (length bs) bs (le_n _)) as H.
  rewrite E in H. exact H.
Qed.
