(* Truncation: every proper prefix of a legal encoding of a well-formed value is refused with
   Insufficient (InsufficientDataException), and decode never runs out of fuel. *)
From Coq Require Import List Bool Arith NArith ZArith Lia.
Import ListNotations.
From Supp Require Import Model.Msgpack Model.MsgpackSpec Proofs.MsgpackBytes Proofs.MsgpackProofs.
Local Open Scope N_scope.

Arguments N.eqb : simpl never.
Arguments N.leb : simpl never.
Arguments N.ltb : simpl never.
Arguments N.of_nat : simpl never.
Arguments be : simpl never.
Arguments utf8_valid : simpl never.

Definition Q_Enc (v : value) (b : bytes) : Prop :=
  wf v = true -> forall p f, sprefix p b -> (length p < f)%nat -> dec f p = Err Insufficient.

Definition Q_EncList (l : list value) (bs : bytes) : Prop :=
  forallb wf l = true ->
  forall p f j, sprefix p bs -> (length p < f)%nat -> (length p < j)%nat ->
  items (dec f) j (len l) p = Err Insufficient.

Definition Q_EncPairs (kvs : list (value * value)) (bs : bytes) : Prop :=
  forallb (fun kv => wf (fst kv) && wf (snd kv)) kvs = true ->
  forallb (fun kv => hashable (fst kv)) kvs = true ->
  forall acc p f j,
    distinct_keys (map fst acc ++ map fst kvs) = true ->
    sprefix p bs -> (length p < f)%nat -> (length p < j)%nat ->
    pairs (dec f) j (len kvs) acc p = Err Insufficient.

Lemma single_trunc c p f : sprefix p [c] -> (length p < f)%nat -> dec f p = Err Insufficient.
Proof.
  intros Hp Hf. rewrite (sprefix_single _ _ Hp) in *. destruct f; [inversion Hf|]. apply dec_nil.
Qed.

Lemma truncation_mut :
  (forall v b, Enc v b -> Q_Enc v b) /\
  (forall l bs, EncList l bs -> Q_EncList l bs) /\
  (forall kvs bs, EncPairs kvs bs -> Q_EncPairs kvs bs).
Proof.
  apply Enc_mutind; unfold Q_Enc, Q_EncList, Q_EncPairs.
  - intros _ p f. apply single_trunc.
  - intros _ p f. apply single_trunc.
  - intros _ p f. apply single_trunc.
  - intros z b H _. apply (scalar_trunc _ _ _ _ (int_enc_ok _ _ H)). exact step_integer.
  - intros x Hx _. apply (scalar_trunc _ _ _ _ (f64_enc_ok _ Hx)). exact step_float.
  - intros x Hx _. apply (scalar_trunc _ _ _ _ (f32_enc_ok _ Hx)). exact step_float.
  - (* str *)
    intros s h Hh _ p f Hp Hf.
    destruct (str_hdr _ _ Hh) as (c & t & -> & Hd & Hok & Hshort).
    destruct f as [|f]; [inversion Hf|]. simpl app in Hp.
    destruct (sprefix_cons_inv _ _ _ Hp) as [->|[p' [-> Hp']]]; [apply dec_nil|].
    rewrite dec_S, (step_string _ _ _ _ Hd). unfold unpack_string.
    destruct (sprefix_app _ _ _ Hp') as [Ht|[p'' [-> Hs]]].
    + rewrite (Hshort _ Ht). reflexivity.
    + rewrite Hok, rd_short by (apply sprefix_len; exact Hs). reflexivity.
  - (* bin *)
    intros s h Hh _ p f Hp Hf.
    destruct (bin_hdr _ _ Hh) as (c & t & -> & Hd & Hok & Hshort).
    destruct f as [|f]; [inversion Hf|]. simpl app in Hp.
    destruct (sprefix_cons_inv _ _ _ Hp) as [->|[p' [-> Hp']]]; [apply dec_nil|].
    rewrite dec_S, (step_binary _ _ _ _ Hd). unfold unpack_binary.
    destruct (sprefix_app _ _ _ Hp') as [Ht|[p'' [-> Hs]]].
    + rewrite (Hshort _ Ht). reflexivity.
    + rewrite Hok, rd_short by (apply sprefix_len; exact Hs). reflexivity.
  - (* ext *)
    intros ty d h Hty Hh _ p f Hp Hf.
    destruct (ext_hdr _ _ Hh) as (c & t & -> & Hd & Hok & Hshort).
    destruct f as [|f]; [inversion Hf|]. simpl app in Hp.
    destruct (sprefix_cons_inv _ _ _ Hp) as [->|[p' [-> Hp']]]; [apply dec_nil|].
    rewrite dec_S, (step_ext _ _ _ _ Hd). unfold unpack_ext.
    destruct (sprefix_app _ _ _ Hp') as [Ht|[p'' [-> Hs]]].
    + rewrite (Hshort _ Ht). reflexivity.
    + rewrite Hok.
      destruct (sprefix_cons_inv _ _ _ Hs) as [->|[p3 [-> Hp3]]].
      * reflexivity.
      * replace (ty :: p3) with (be 1 ty ++ p3) by (rewrite be1 by lia; reflexivity).
        rewrite rd_uint_be1 by lia. rewrite rd_short by (apply sprefix_len; exact Hp3). reflexivity.
  - (* arr *)
    intros l h b Hh _ IH Hwf p f Hp Hf. rewrite wf_arr in Hwf.
    apply andb_true_iff in Hwf. destruct Hwf as [Hwf _].
    destruct (arr_hdr _ _ Hh) as (c & t & -> & Hd & Hok & Hshort).
    destruct f as [|f]; [inversion Hf|]. simpl app in Hp.
    destruct (sprefix_cons_inv _ _ _ Hp) as [->|[p' [-> Hp']]]; [apply dec_nil|].
    rewrite dec_S, (step_array _ _ _ _ Hd).
    destruct (sprefix_app _ _ _ Hp') as [Ht|[p'' [-> Hs]]].
    + rewrite (Hshort _ Ht). reflexivity.
    + rewrite Hok. simpl in Hf. rewrite app_length in Hf.
      rewrite (IH Hwf p'' f f Hs) by lia. reflexivity.
  - (* map *)
    intros kvs h b Hh _ IH Hwf p f Hp Hf. rewrite wf_map in Hwf.
    apply andb_true_iff in Hwf. destruct Hwf as [Hwf _].
    apply andb_true_iff in Hwf. destruct Hwf as [Hwf Hdist].
    apply andb_true_iff in Hwf. destruct Hwf as [Hwf Hhash].
    destruct (map_hdr _ _ Hh) as (c & t & -> & Hd & Hok & Hshort).
    destruct f as [|f]; [inversion Hf|]. simpl app in Hp.
    destruct (sprefix_cons_inv _ _ _ Hp) as [->|[p' [-> Hp']]]; [apply dec_nil|].
    rewrite dec_S, (step_map _ _ _ _ Hd).
    destruct (sprefix_app _ _ _ Hp') as [Ht|[p'' [-> Hs]]].
    + rewrite (Hshort _ Ht). reflexivity.
    + rewrite Hok. simpl in Hf. rewrite app_length in Hf.
      rewrite (IH Hwf Hhash [] p'' f f Hdist Hs) by lia. reflexivity.
  - (* list nil *) intros _ p f j Hp. exfalso. eapply sprefix_nil; eassumption.
  - (* list cons *)
    intros v l b bs HEv IHv _ IHl Hwf p f j Hp Hf Hj. simpl in Hwf.
    apply andb_true_iff in Hwf. destruct Hwf as [Hv Hl].
    destruct j as [|j]; [inversion Hj|].
    rewrite len_cons, items_S by lia.
    destruct (sprefix_app _ _ _ Hp) as [Hb|[p' [-> Hs]]].
    + rewrite (IHv Hv p f Hb Hf). reflexivity.
    + pose proof (proj1 accepts_mut _ _ HEv) as Hacc0.
      pose proof (P_Enc_nonempty _ _ Hacc0 Hv) as Hne.
      pose proof (Hacc0 Hv) as Hacc.
      rewrite (Hacc p' f Hf). rewrite N.pred_succ.
      rewrite app_length in Hf, Hj.
      rewrite (IHl Hl p' f j Hs) by lia. reflexivity.
  - (* pairs nil *) intros _ _ acc p f j _ Hp. exfalso. eapply sprefix_nil; eassumption.
  - (* pairs cons *)
    intros k v l bk bv bs HEk IHk HEv IHv _ IHl Hwf Hhash acc p f j Hdist Hp Hf Hj.
    simpl in Hwf, Hhash.
    apply andb_true_iff in Hwf. destruct Hwf as [Hkv Hl].
    apply andb_true_iff in Hkv. destruct Hkv as [Hk Hv].
    apply andb_true_iff in Hhash. destruct Hhash as [Hhk Hhl].
    destruct j as [|j]; [inversion Hj|].
    rewrite len_cons, pairs_S by lia.
    destruct (sprefix_app _ _ _ Hp) as [Hb|[p' [-> Hs]]].
    + rewrite (IHk Hk p f Hb Hf). reflexivity.
    + pose proof (proj1 accepts_mut _ _ HEk) as Hacck0.
      pose proof (P_Enc_nonempty _ _ Hacck0 Hk) as Hnek.
      pose proof (Hacck0 Hk) as Hacck.
      rewrite (Hacck p' f Hf).
      simpl map in Hdist.
      assert (Hfresh : key_in k acc = false) by (eapply key_in_fresh; eassumption).
      assert (Hkc : key_check k acc = None).
      { unfold key_check. destruct (is_arr k); [reflexivity|]. rewrite Hhk, Hfresh. reflexivity. }
      rewrite Hkc. rewrite app_length in Hf, Hj.
      destruct (sprefix_app _ _ _ Hs) as [Hbv|[p'' [-> Hs']]].
      * rewrite (IHv Hv p' f Hbv) by lia. reflexivity.
      * pose proof (proj1 accepts_mut _ _ HEv) as Haccv0.
        pose proof (P_Enc_nonempty _ _ Haccv0 Hv) as Hnev.
        pose proof (Haccv0 Hv) as Haccv.
        rewrite (Haccv p'' f) by lia.
        rewrite Hhk, N.pred_succ, (dict_set_fresh _ _ _ Hfresh).
        rewrite app_length in Hf, Hj.
        apply (IHl Hl Hhl (acc ++ [(k, v)]) p'' f j); [|exact Hs'|lia|lia].
        rewrite map_app, <- app_assoc. exact Hdist.
Qed.

Theorem truncation v b p : wf v = true -> Enc v b -> sprefix p b -> decode p = Err Insufficient.
Proof.
  intros Hwf H Hp. unfold decode. apply (proj1 truncation_mut v b H Hwf p); [exact Hp|lia].
Qed.
