(* supp's name lookup as an abstract flow graph (definitions only; proofs in
   Proofs/FlowGraphProofs.v).  The graph is exactly the data supp/scope.py holds after extraction,
   whatever built it; the harness dumps it from scope._all_flows.

   flow.own       Flow._names            scope.py:66, 73-80   bindings of one flow, sorted by location
   flow.parents   Flow.parents           scope.py:67, 130-132 Direct i = Flow, Loop l = LoopFlow
   flow.chain     scope entry rule       scope.py:113-123     pscope.names of the enclosing scope as the
                                                              flows whose names it merges (first match
                                                              wins): SourceScope.names = MergedDict(
                                                              flow.names, _global_names) 216-219,
                                                              FuncScope.names 368-371, ClassScope.names
                                                              409-412, BuiltinScope 424-432
   flow.hide      scope.locals           scope.py:117-121     None for a class scope (sees everything),
                                                              Some locals otherwise
   own_env        {n.name: n for n in _names} over parent_names   scope.py:88, 128  (MergedDict)
   join           Flow._get_parent_names scope.py:95-112      row = alternatives over the resolved
                                                              parents, UndefinedName where one lacks it
   norm           MultiName.__init__     name.py:274-284      flatten, de-duplicate, sort by position
                                                              (after the fix of F4)
   names_pure     Flow.names / LoopFlow.names without any memo: an UNRESOLVED (re-entered) loop
                  parent is skipped      scope.py:101-102, 167-186
   names_at       Flow.names_at          scope.py:125-128 *)
From Coq Require Import List Bool Arith NArith PArith FMapPositive.
Import ListNotations.
From Supp Require Import Model.Layout.

Module PM := PositiveMap.

Definition name := positive.
Definition bid := positive.

(* one alternative of a row: UndefinedName(n) or a binding (Name object) identified by [bid] *)
Inductive alt := AUndef | ADef (b : bid).

Definition alt_eqb (a b : alt) : bool :=
  match a, b with
  | AUndef, AUndef => true
  | ADef x, ADef y => Pos.eqb x y
  | _, _ => false
  end.

Record bind := mkBind { b_name : name; b_id : bid }.

Inductive parent := Direct (i : nat) | Loop (l : nat).

Record flow := mkFlow {
  own : list bind;
  parents : list parent;
  chain : list nat;
  hide : option (list name) }.

Record graph := mkGraph { flows : list flow; loops : list nat (* loop id -> target flow *) }.

(* positions of the bindings: bid -> (Name.location, Name.declared_at) *)
Definition keymap := PM.t (pos * pos).

Definition env := PM.t (list alt).

(* ---- ordering of alternatives (name.py MultiName after the fix of F4) ------------------------ *)

(* sort key: UndefinedName first, then (declared_at, location) *)
Definition key := (N * (pos * pos))%type.

Definition key_of (km : keymap) (a : alt) : key :=
  match a with
  | AUndef => (0%N, ((0%N, 0%N), (0%N, 0%N)))
  | ADef b => (1%N, match PM.find b km with Some k => (snd k, fst k) | None => ((0%N, 0%N), (0%N, 0%N)) end)
  end.

Definition key_ltb (a b : key) : bool :=
  let '(ta, (la, da)) := a in
  let '(tb, (lb, db)) := b in
  (ta <? tb)%N ||
  ((ta =? tb)%N && (pos_ltb la lb || (pos_eqb la lb && pos_ltb da db))).

Definition alt_ltb (km : keymap) (a b : alt) : bool := key_ltb (key_of km a) (key_of km b).

(* order-preserving de-duplication (first occurrence kept) *)
Fixpoint dedupe (l : list alt) : list alt :=
  match l with
  | [] => []
  | a :: r => a :: filter (fun x => negb (alt_eqb a x)) (dedupe r)
  end.

(* stable insertion sort: x goes before the first element strictly greater than it *)
Fixpoint sort_insert (lt : alt -> alt -> bool) (x : alt) (l : list alt) : list alt :=
  match l with
  | [] => [x]
  | e :: r => if lt x e then x :: l else e :: sort_insert lt x r
  end.

Definition sort_alts (lt : alt -> alt -> bool) (l : list alt) : list alt :=
  fold_left (fun acc x => sort_insert lt x acc) l [].

Definition norm (km : keymap) (l : list alt) : list alt := sort_alts (alt_ltb km) (dedupe l).

(* name.py:432-436 first_name: the first alternative that is not UndefinedName *)
Fixpoint first_name (l : list alt) : option bid :=
  match l with
  | [] => None
  | AUndef :: r => first_name r
  | ADef b :: _ => Some b
  end.

(* ---- environments ------------------------------------------------------------------------------ *)

(* MergedDict({n.name: n for n in bs}, e): later bindings win, own bindings win over e *)
Definition own_env (bs : list bind) (e : env) : env :=
  fold_left (fun m b => PM.add (b_name b) [ADef (b_id b)] m) bs e.

Definition orU (r : option (list alt)) : list alt :=
  match r with Some l => l | None => [AUndef] end.

Definition collect2 (a b : env) : env :=
  PM._map2 (fun x y => match x, y with None, None => None | _, _ => Some (orU x ++ orU y) end) a b.

(* scope.py:96-112: one parent -> its names; several -> a row per name of the union *)
Definition join (canon : list alt -> list alt) (envs : list env) : env :=
  match envs with
  | [] => PM.empty _
  | [e] => e
  | e :: r => PM.mapi (fun _ row => canon row) (fold_left collect2 r e)
  end.

(* MergedDict(a, b): a first *)
Definition overlay (a b : env) : env :=
  PM._map2 (fun x y => match x with Some _ => x | None => y end) a b.

Definition hide_env (h : option (list name)) (e : env) : env :=
  match h with
  | None => e
  | Some hs => fold_left (fun m n => PM.remove n m) hs e
  end.

Fixpoint sequence {A} (l : list (option A)) : option (list A) :=
  match l with
  | [] => Some []
  | None :: _ => None
  | Some x :: r => match sequence r with Some xs => Some (x :: xs) | None => None end
  end.

(* ---- evaluation without memo --------------------------------------------------------------------- *)

Section Eval.
  Variable canon : list alt -> list alt.
  Variable g : graph.

  (* names of the resolved parents, in order; [rec R i] evaluates flow i under resolving set R;
     outer None = out of fuel / dangling index *)
  Fixpoint gather (rec : list nat -> nat -> option env) (R : list nat) (ps : list parent)
    : option (list env) :=
    match ps with
    | [] => Some []
    | Direct i :: r =>
        match rec R i, gather rec R r with
        | Some e, Some es => Some (e :: es)
        | _, _ => None
        end
    | Loop l :: r =>
        if existsb (Nat.eqb l) R then gather rec R r          (* UNRESOLVED: skipped *)
        else match nth_error (loops g) l with
             | None => None
             | Some t =>
                 match rec (l :: R) t, gather rec R r with
                 | Some e, Some es => Some (e :: es)
                 | _, _ => None
                 end
             end
    end.

  (* Flow._get_parent_names *)
  Definition pnames_with (rec : list nat -> nat -> option env) (R : list nat) (fl : flow) : option env :=
    match parents fl with
    | [] =>
        match sequence (map (rec R) (chain fl)) with
        | Some es => Some (hide_env (hide fl) (fold_right overlay (PM.empty _) es))
        | None => None
        end
    | ps =>
        match gather rec R ps with
        | Some es => Some (join canon es)
        | None => None
        end
    end.

  (* Flow._closes: the loop whose back edge starts at this flow (LoopFlow.__init__, scope.py) *)
  Fixpoint index_of (t : nat) (l : list nat) (i : nat) : option nat :=
    match l with
    | [] => None
    | x :: r => if Nat.eqb x t then Some i else index_of t r (S i)
    end.

  Definition closes_of (f : nat) : option nat := index_of f (loops g) 0.

  (* Flow.names under the resolving set R; None = out of fuel (or a dangling index).
     A flow that closes a loop which is not being resolved answers with that loop's names
     (scope.py Flow.names, commit 0211a17): the resolution of the loop evaluates this same flow. *)
  Fixpoint names_pure (fuel : nat) (R : list nat) (f : nat) : option env :=
    match fuel with
    | 0 => None
    | S k =>
        match nth_error (flows g) f with
        | None => None
        | Some fl =>
            match (match closes_of f with
                   | Some l => if existsb (Nat.eqb l) R then None else Some l
                   | None => None
                   end) with
            | Some l => names_pure k (l :: R) f
            | None =>
                match pnames_with (names_pure k) R fl with
                | Some pe => Some (own_env (own fl) pe)
                | None => None
                end
            end
        end
    end.

  (* Flow.names_at with the bisect index already computed *)
  Definition names_at_idx (fuel : nat) (f : nat) (idx : nat) : option env :=
    match nth_error (flows g) f with
    | None => None
    | Some fl =>
        match pnames_with (names_pure fuel) [] fl with
        | Some pe => Some (own_env (firstn idx (own fl)) pe)
        | None => None
        end
    end.
End Eval.

Definition loc_of (km : keymap) (b : bind) : pos :=
  match PM.find (b_id b) km with Some k => fst k | None => (0%N, 0%N) end.

(* bisect(self._names, Location(loc)) *)
Definition bisect_idx (km : keymap) (fl : flow) (loc : pos) : nat :=
  bisect_by (fun b => pos_ltb loc (loc_of km b)) (own fl).

Definition query := (nat * pos * name)%type.

(* flow.names_at(loc).get(n):  None = out of fuel, Some None = KeyError, Some (Some row) *)
Definition query_pure (g : graph) (km : keymap) (fuel : nat) (q : query) : option (option (list alt)) :=
  let '(f, loc, n) := q in
  match nth_error (flows g) f with
  | None => None
  | Some fl =>
      match names_at_idx (norm km) g fuel f (bisect_idx km fl loc) with
      | Some e => Some (PM.find n e)
      | None => None
      end
  end.

(* ---- helpers for the correspondence cases -------------------------------------------------------- *)

Definition kmap_of_list (l : list (bid * (pos * pos))) : keymap :=
  fold_left (fun m p => PM.add (fst p) (snd p) m) l (PM.empty _).

Definition default_fuel (g : graph) : nat := 2 * S (length (flows g)) * S (length (loops g)).

Fixpoint list_eqb {A} (eq : A -> A -> bool) (a b : list A) : bool :=
  match a, b with
  | [], [] => true
  | x :: a', y :: b' => eq x y && list_eqb eq a' b'
  | _, _ => false
  end.

Definition subsetb (a b : list alt) : bool := forallb (fun x => existsb (alt_eqb x) b) a.
Definition set_eqb (a b : list alt) : bool := subsetb a b && subsetb b a.

Definition row_set_eqb (a b : option (list alt)) : bool :=
  match a, b with
  | None, None => true
  | Some x, Some y => set_eqb x y
  | _, _ => false
  end.

Definition row_eqb (a b : option (list alt)) : bool :=
  match a, b with
  | None, None => true
  | Some x, Some y => list_eqb alt_eqb x y
  | _, _ => false
  end.

(* own lists sorted by location (what insert_loc guarantees; the dumper's graph must satisfy it) *)
Definition own_sortedb (km : keymap) (g : graph) : bool :=
  forallb (fun fl => sortedb (fun a b => pos_ltb (loc_of km a) (loc_of km b)) (own fl)) (flows g).

(* ---- a graph before its bindings are placed: C13 ------------------------------------------------ *)

(* a flow with its bindings in creation order (the order of the Flow.add_name calls) *)
Record sflow := mkSFlow {
  s_created : list bind;
  s_parents : list parent;
  s_chain : list nat;
  s_hide : option (list name) }.

Definition bind_lt (km : keymap) (a b : bind) : bool := pos_ltb (loc_of km a) (loc_of km b).

(* Flow._names under the position assignment km: insert_loc of every binding in creation order *)
Definition place (km : keymap) (sf : sflow) : flow :=
  mkFlow (build (bind_lt km) (s_created sf)) (s_parents sf) (s_chain sf) (s_hide sf).

Definition place_graph (km : keymap) (sfs : list sflow) (lps : list nat) : graph :=
  mkGraph (map (place km) sfs) lps.

(* two layouts order every (binding, binding) pair of the same flow identically *)
Definition order_equiv (km1 km2 : keymap) (sfs : list sflow) : Prop :=
  forall sf, In sf sfs -> agree_on (s_created sf) (bind_lt km1) (bind_lt km2).

(* ... and the read at loc1 / loc2 in flow f against every binding of that flow *)
Definition read_equiv (km1 km2 : keymap) (sfs : list sflow) (f : nat) (loc1 loc2 : pos) : Prop :=
  forall sf b, nth_error sfs f = Some sf -> In b (s_created sf) ->
    pos_ltb loc1 (loc_of km1 b) = pos_ltb loc2 (loc_of km2 b).

(* boolean versions evaluated by the harness on every pair of layouts *)
Definition agree_onb (dom : list bind) (lt1 lt2 : bind -> bind -> bool) : bool :=
  forallb (fun x => forallb (fun y => Bool.eqb (lt1 x y) (lt2 x y)) dom) dom.

Definition order_equivb (km1 km2 : keymap) (sfs : list sflow) : bool :=
  forallb (fun sf => agree_onb (s_created sf) (bind_lt km1) (bind_lt km2)) sfs.

Definition read_equivb (km1 km2 : keymap) (sfs : list sflow) (f : nat) (loc1 loc2 : pos) : bool :=
  match nth_error sfs f with
  | Some sf => forallb (fun b => Bool.eqb (pos_ltb loc1 (loc_of km1 b)) (pos_ltb loc2 (loc_of km2 b))) (s_created sf)
  | None => true
  end.
