(* The chain semantics of Model/NestedRun.v over the strict interpreter runXs of Model/SemXS.v (the
   fragment [okx] of the C02 extension: exceptions raised only at the designated points, loops left by
   break / continue / return).  Definitions only; proofs: Proofs/NestedRunSProofs.v. *)
From Coq Require Import List Bool NArith.
Import ListNotations.
From Supp Require Import Model.PyCore Model.Reach Model.ReachX Model.Sem Model.SemX Model.SemXS Model.Nested Model.NestedRun.

Fixpoint run_chain_s (fuel : nat) (outers rest : list cmd) (p : renv) (ds : list nat)
  : list (list cmd * cmd * trace) :=
  match rest with
  | [] => []
  | c :: rest' =>
      match runXs fuel c (enter_r (binds c) p) ds with
      | DoneX p' tr o ds' =>
          (outers, c, tr) ::
          match o with
          | XN => run_chain_s fuel (outers ++ [c]) rest' p' ds'
          | _ => []
          end
      | _ => []
      end
  end.

(* every read event - the definition obtained, or the failure - is among supp's alternatives *)
Definition level_sound (e : list cmd * cmd * trace) : bool :=
  match e with
  | (os, c, tr) => forallb (fun ev => existsb (alt_eqb (snd ev)) (seen_nested os c (fst ev))) tr
  end.
