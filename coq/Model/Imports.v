(* Model of module resolution (C07). Definitions only; proofs in Proofs/ImportsProofs.v.

   IMPL  supp/project.py   Project._find / get_module / norm_package / list_packages
         supp/util.py      split_pkg / join_pkg
   REF   importlib         FileFinder.find_spec, PathFinder._get_spec, _find_spec walking parents,
                           importlib.util.resolve_name, pkgutil.iter_modules / inspect.getmodulename

   The file system is abstract: [fs : path -> kind] and [ls : path -> list str] (os.listdir).
   A path is the list of its components; a component / suffix / module name part is a [str]
   (list of characters), so that "name + suffix", "endswith" and "rpartition" are the real string
   operations. *)
From Coq Require Import Ascii String.
From Coq Require Import List Bool Arith.
Import ListNotations.

Definition str := list ascii.
Definition path := list str.
Definition S_ (x : string) : str := list_ascii_of_string x.

Inductive kind := Absent | File | Dir.

Fixpoint str_eqb (a b : str) : bool :=
  match a, b with
  | [], [] => true
  | x :: a', y :: b' => Ascii.eqb x y && str_eqb a' b'
  | _, _ => false
  end.

Fixpoint path_eqb (a b : path) : bool :=
  match a, b with
  | [], [] => true
  | x :: a', y :: b' => str_eqb x y && path_eqb a' b'
  | _, _ => false
  end.

Definition is_nil {A} (l : list A) : bool := match l with [] => true | _ => false end.

Definition dot : ascii := "."%char.
Definition is_dot (c : ascii) : bool := Ascii.eqb c dot.
Definition has_dot (s : str) : bool := existsb is_dot s.

Definition init_stem : str := S_ "__init__".
Definition py : str := S_ ".py".                   (* project.py:16 SOURCE_SUFFIXES = ('.py',) *)
Definition init_py : str := init_stem ++ py.

Fixpoint first_some {A B} (f : A -> option B) (l : list A) : option B :=
  match l with
  | [] => None
  | x :: r => match f x with Some y => Some y | None => first_some f r end
  end.

Fixpoint filter_map {A B} (f : A -> option B) (l : list A) : list B :=
  match l with
  | [] => []
  | x :: r => match f x with Some y => y :: filter_map f r | None => filter_map f r end
  end.

(* s.endswith(suf) ; s[:-len(suf)] *)
Definition ends_with (s suf : str) : bool :=
  (length suf <=? length s) && str_eqb (skipn (length s - length suf) s) suf.
Definition strip_suffix (s suf : str) : option str :=
  if ends_with s suf then Some (firstn (length s - length suf) s) else None.

Definition opt_is (o : option str) (s : str) : bool :=
  match o with Some x => str_eqb x s | None => false end.
Definition opt_str_eqb (a b : option str) : bool :=
  match a, b with Some x, Some y => str_eqb x y | None, None => true | _, _ => false end.

(* what a search step returns: (file, is_source, package directory when the hit is a package) *)
Definition hit := (path * bool * option path)%type.

Definition next_dirs (h : option hit) : list path :=
  match h with Some (_, _, Some pd) => [pd] | _ => [] end.

Inductive gm := GSource (f : path) | GRuntime (f : path) | GLoaded | GImportError.
Inductive rfound := RHit (h : hit) | RNs (d : path).
Inductive rres := RFound (h : hit) | RNamespace | RNotFound.
Inductive nres := NOk (n : list str) | NErr | NOutOfFuel.

Definition to_rres (h : option hit) : rres :=
  match h with Some x => RFound x | None => RNotFound end.

Definition mem_name (n : list str) (l : list (list str)) : bool := existsb (path_eqb n) l.

(* sys.modules fall-back of get_module (project.py: `if not filename: if name in sys.modules`) *)
Definition gm_of (loaded : list (list str)) (name : list str) (h : option hit) : gm :=
  match h with
  | Some (f, true, _) => GSource f
  | Some (f, false, _) => GRuntime f        (* `__import__(name)`: delegated to the interpreter *)
  | None => if mem_name name loaded then GLoaded else GImportError
  end.

Fixpoint prefix_eqb (p l : list str) : bool :=
  match p, l with
  | [], _ => true
  | x :: p', y :: l' => str_eqb x y && prefix_eqb p' l'
  | _ :: _, [] => false
  end.

(* project.py list_packages, the sys.modules part: names `root.X[.…]` contribute X *)
Definition loaded_children (loaded : list (list str)) (pkg : list str) : list str :=
  filter_map (fun L => if prefix_eqb pkg L then nth_error L (length pkg) else None) loaded.

Section FS.
  Variable fs : path -> kind.
  Variable ls : path -> list str.      (* os.listdir *)
  Variable sfx : list str.             (* supp.project.SUFFIXES, in order *)
  Variable lsfx : list str.            (* suffixes in the order of FileFinder._loaders *)

  Definition exists_ (p : path) : bool := match fs p with Absent => false | _ => true end.  (* os.path.exists *)
  Definition isfile (p : path) : bool := match fs p with File => true | _ => false end.
  Definition isdir (p : path) : bool := match fs p with Dir => true | _ => false end.

  (* ---------------- IMPL: Project._find (with the fix for F24a) ---------------------------- *)

  (* one path entry, one name component: suffixes in order, then the package __init__.py *)
  Definition impl_find_in (d : path) (n : str) : option hit :=
    match find (fun s => exists_ (d ++ [n ++ s])) sfx with
    | Some s => Some (d ++ [n ++ s], str_eqb s py, None)
    | None => if exists_ (d ++ [n; init_py])
              then Some (d ++ [n; init_py], true, Some (d ++ [n])) else None
    end.

  Definition impl_find (dirs : list path) (n : str) : option hit :=
    first_some (fun d => impl_find_in d n) dirs.

  (* `for part in name.split('.')`: found = search(path, part); path = [pkgdir] or [] *)
  Fixpoint impl_walk (dirs : list path) (name : list str) (last : option hit) : option hit :=
    match name with
    | [] => last
    | n :: r => let h := impl_find dirs n in impl_walk (next_dirs h) r h
    end.

  Definition impl_lookup (dirs : list path) (name : list str) : option hit := impl_walk dirs name None.

  Definition get_module (loaded : list (list str)) (dirs : list path) (name : list str) : gm :=
    gm_of loaded name (impl_lookup dirs name).

  (* ---------------- IMPL as pinned (defect F24a): project.py:98-117 of the snapshot ---------- *)
  (* mpath = os.path.join(p, *name.split('.')) under EVERY path entry *)
  Definition add_suffix (p : path) (s : str) : path := removelast p ++ [last p [] ++ s].
  Definition pinned_find_in (root : path) (name : list str) : option hit :=
    let mp := root ++ name in
    match find (fun s => exists_ (add_suffix mp s)) sfx with
    | Some s => Some (add_suffix mp s, str_eqb s py, None)
    | None => if exists_ (mp ++ [init_py]) then Some (mp ++ [init_py], true, Some mp) else None
    end.
  Definition get_module_pinned (loaded : list (list str)) (dirs : list path) (name : list str) : gm :=
    gm_of loaded name (first_some (fun d => pinned_find_in d name) dirs).

  (* ---------------- IMPL: norm_package (project.py norm_package) ----------------------------- *)
  Definition dirname (p : path) : path := removelast p.

  (* `while exists(root/__init__.py): parts.insert(0, basename(root)); root = dirname(root)` *)
  Fixpoint collect (fuel : nat) (dir : path) (acc : list str) : option (list str) :=
    match fuel with
    | 0 => None
    | S f => if exists_ (dir ++ [init_py]) then collect f (dirname dir) (last dir [] :: acc)
             else Some acc
    end.

  (* spec = '.'*level + '.'.join(rest) ; result NErr = ImportError (bare Exception before F24b) *)
  Definition norm_package (level : nat) (rest : list str) (file : path) : nres :=
    if level =? 0 then NOk rest else
    match collect (S (length file)) (Nat.iter level dirname file) [] with
    | None => NOutOfFuel
    | Some [] => NErr
    | Some parts => NOk (parts ++ rest)
    end.

  (* ---------------- IMPL: list_packages (with the fixes for F24a and F24d) -------------------- *)
  Definition listdir (d : path) : list str := if isdir d then ls d else [].   (* OSError -> skip *)

  Definition entry_impl (d : path) (name : str) : option str :=
    match first_some (strip_suffix name) sfx with
    | Some m => if negb (is_nil m) && negb (str_eqb m init_stem) && negb (has_dot m)
                then Some m else None
    | None => if negb (has_dot name) && exists_ (d ++ [name; init_py]) then Some name else None
    end.

  Definition scan_impl (d : path) : list str := filter_map (entry_impl d) (listdir d).

  Definition list_packages (loaded : list (list str)) (dirs : list path) (pkg : list str) : list str :=
    loaded_children loaded pkg ++
    flat_map scan_impl (match pkg with [] => dirs | _ => next_dirs (impl_lookup dirs pkg) end).

  (* ---------------- REF: importlib -------------------------------------------------------------- *)

  (* FileFinder.find_spec for one directory: package (any __init__ suffix) first, then module
     files in loader order, then a namespace portion *)
  Definition ref_find_in (d : path) (n : str) : option rfound :=
    let base := d ++ [n] in
    match (if exists_ base then find (fun s => isfile (base ++ [init_stem ++ s])) lsfx else None) with
    | Some s => Some (RHit (base ++ [init_stem ++ s], str_eqb s py, Some base))
    | None =>
        match find (fun s => isfile (d ++ [n ++ s])) lsfx with
        | Some s => Some (RHit (d ++ [n ++ s], str_eqb s py, None))
        | None => if isdir base then Some (RNs base) else None
        end
    end.

  (* PathFinder._get_spec: first real hit wins; namespace portions are remembered *)
  Fixpoint ref_path_find (dirs : list path) (n : str) (ns : bool) : rres :=
    match dirs with
    | [] => if ns then RNamespace else RNotFound
    | d :: r => match ref_find_in d n with
                | Some (RHit h) => RFound h
                | Some (RNs _) => ref_path_find r n true
                | None => ref_path_find r n ns
                end
    end.

  (* _find_spec with parents imported first: a.b is searched in a.__path__ only *)
  Fixpoint importlib_walk (dirs : list path) (name : list str) : rres :=
    match name with
    | [] => RNotFound
    | n :: r =>
        match r with
        | [] => ref_path_find dirs n false
        | _ :: _ => match ref_path_find dirs n false with
                    | RFound (_, _, Some pd) => importlib_walk [pd] r
                    | RFound (_, _, None) => RNotFound      (* 'a' is not a package *)
                    | x => x
                    end
        end
    end.

  (* importlib.util.resolve_name('.'*level + rest, package) *)
  Definition resolve_name (level : nat) (rest : list str) (package : list str) : nres :=
    if level =? 0 then NOk rest
    else if is_nil package then NErr
    else if length package <? level then NErr
    else NOk (firstn (length package - (level - 1)) package ++ rest).

  (* spec.parent of the module found under [name] *)
  Definition spec_parent (name : list str) (h : hit) : list str :=
    match h with (_, _, Some _) => name | _ => removelast name end.

  (* inspect.getmodulename: the longest matching suffix *)
  Definition best_suffix (name : str) : option str :=
    fold_left (fun best s =>
                 if ends_with name s && (match best with None => true | Some b => length b <? length s end)
                 then Some s else best) lsfx None.
  Definition modname (name : str) : option str :=
    option_map (fun s => firstn (length name - length s) name) (best_suffix name).

  (* pkgutil.iter_modules over one directory (_iter_file_finder_modules) *)
  Definition entry_ref (d : path) (name : str) : option str :=
    let m := modname name in
    if opt_is m init_stem then None else
    let noname := match m with None => true | Some x => is_nil x end in
    if noname && isdir (d ++ [name]) && negb (has_dot name) then
      (if existsb (fun fn => opt_is (modname fn) init_stem) (ls (d ++ [name])) then Some name else None)
    else match m with
         | Some x => if negb (is_nil x) && negb (has_dot x) then Some x else None
         | None => None
         end.

  Definition scan_ref (d : path) : list str := filter_map (entry_ref d) (listdir d).

  Definition children_importlib (dirs : list path) (pkg : list str) : list str :=
    match pkg with
    | [] => flat_map scan_ref dirs
    | _ => match importlib_walk dirs pkg with
           | RFound (_, _, Some pd) => scan_ref pd
           | _ => []
           end
    end.

  (* ---------------- the property's domain, as decidable predicates ---------------------------- *)

  (* directory d is unambiguous for component n: module candidates are files; no module file next
     to a package directory; no directory without __init__.py (namespace); the package marker is
     the source __init__.py *)
  Definition clean (d : path) (n : str) : bool :=
    let base := d ++ [n] in
    let mods := filter (fun s => exists_ (d ++ [n ++ s])) sfx in
    forallb (fun s => isfile (d ++ [n ++ s])) mods &&
    (if exists_ (d ++ [n; init_py]) || isdir base || existsb (fun s => isfile (base ++ [init_stem ++ s])) sfx
     then isfile (d ++ [n; init_py]) && exists_ base && is_nil mods &&
          match find (fun s => isfile (base ++ [init_stem ++ s])) sfx with
          | Some s => str_eqb s py | None => false end
     else true).

  (* every directory searched for [name] is clean for the component searched there *)
  Fixpoint dom (dirs : list path) (name : list str) : bool :=
    match name with
    | [] => true
    | n :: r => forallb (fun d => clean d n) dirs && dom (next_dirs (impl_find dirs n)) r
    end.

  (* no search root (nor a directory above it) is itself a package directory *)
  Definition root_ok (d : path) : bool :=
    forallb (fun k => negb (exists_ (firstn k d ++ [init_py]))) (seq 0 (S (length d))).

  (* a directory entry is unambiguous for enumeration *)
  Definition entry_ok (d : path) (name : str) : bool :=
    opt_str_eqb (first_some (strip_suffix name) sfx) (modname name) &&
    match modname name with
    | Some _ => isfile (d ++ [name])
    | None => if isdir (d ++ [name])
              then Bool.eqb (existsb (fun fn => opt_is (modname fn) init_stem) (ls (d ++ [name])))
                            (isfile (d ++ [name; init_py])) &&
                   Bool.eqb (exists_ (d ++ [name; init_py])) (isfile (d ++ [name; init_py]))
              else negb (exists_ (d ++ [name; init_py]))
    end.
  Definition dir_ok (d : path) : bool := forallb (entry_ok d) (listdir d).

End FS.

(* ---------------- split_pkg / join_pkg (util.py) on real strings ------------------------------ *)

(* s.rpartition('.') when s contains a dot: Some (head, tail) *)
Fixpoint rpart (s : str) : option (str * str) :=
  match s with
  | [] => None
  | c :: r => match rpart r with
              | Some (h, t) => Some (c :: h, t)
              | None => if is_dot c then Some ([], r) else None
              end
  end.

Definition ends_with_dot (s : str) : bool :=
  match rev s with c :: _ => is_dot c | [] => false end.

Definition split_pkg (s : str) : str * str :=
  if forallb is_dot s then (s, [])                     (* not package.strip('.') *)
  else match rpart s with
       | None => ([], s)                               (* head = '', sep = '' *)
       | Some (h, t) =>
           if is_nil h then ([dot], t)                 (* head = sep *)
           else if ends_with_dot h then (h ++ [dot], t)
           else (h, t)
       end.

Definition join_pkg (package module : str) : str :=
  if ends_with_dot package then package ++ module else package ++ dot :: module.

(* ---------------- concrete file systems for cases and examples ------------------------------- *)

Definition fs_of (l : list (path * kind)) (p : path) : kind :=
  match find (fun e => path_eqb (fst e) p) l with Some (_, k) => k | None => Absent end.

Fixpoint child_of (d p : path) : option str :=
  match d, p with
  | [], [n] => Some n
  | x :: d', y :: p' => if str_eqb x y then child_of d' p' else None
  | _, _ => None
  end.

Definition ls_of (l : list (path * kind)) (d : path) : list str :=
  filter_map (fun e => match snd e with Absent => None | _ => child_of d (fst e) end) l.

(* the same as a tree (used by the correspondence runs: lookups walk the components) *)
Inductive node := Node (k : kind) (ch : list (str * node)).

Fixpoint node_at (n : node) (p : path) : option node :=
  match p with
  | [] => Some n
  | c :: r => match n with
              | Node _ ch => match find (fun e => str_eqb (fst e) c) ch with
                             | Some (_, m) => node_at m r
                             | None => None
                             end
              end
  end.

Definition fs_of_node (n : node) (p : path) : kind :=
  match node_at n p with Some (Node k _) => k | None => Absent end.

Definition ls_of_node (n : node) (p : path) : list str :=
  match node_at n p with Some (Node _ ch) => map fst ch | None => [] end.

(* '.' * level + '.'.join(comps): how a (possibly relative) dotted module name is written *)
Fixpoint dotted (comps : list str) : str :=
  match comps with
  | [] => []
  | [c] => c
  | c :: r => c ++ dot :: dotted r
  end.
Definition render (level : nat) (comps : list str) : str := repeat dot level ++ dotted comps.
(* a component: non-empty, no dot *)
Definition comp_ok (c : str) : bool := negb (is_nil c) && negb (has_dot c).

(* A suffix list in which no suffix stands before a longer one that ends with it: then the first
   matching suffix (supp) is the longest matching suffix (inspect.getmodulename). *)
Fixpoint sfx_ordered (l : list str) : bool :=
  match l with
  | [] => true
  | s :: r => forallb (fun s' => negb (ends_with s' s && (length s <? length s'))) r && sfx_ordered r
  end.

Section FS2.
  Variable fs : path -> kind.
  Variable ls : path -> list str.
  Variable sfx : list str.
  (* entry_ok without the clause "first matching suffix = longest matching suffix" *)
  Definition entry_ok2 (d : path) (name : str) : bool :=
    match modname sfx name with
    | Some _ => isfile fs (d ++ [name])
    | None => if isdir fs (d ++ [name])
              then Bool.eqb (existsb (fun fn => opt_is (modname sfx fn) init_stem) (ls (d ++ [name])))
                            (isfile fs (d ++ [name; init_py])) &&
                   Bool.eqb (exists_ fs (d ++ [name; init_py])) (isfile fs (d ++ [name; init_py]))
              else negb (exists_ fs (d ++ [name; init_py]))
    end.
  Definition dir_ok2 (d : path) : bool := forallb (entry_ok2 d) (listdir fs ls d).
End FS2.

(* norm_package when the file name is RELATIVE to the working directory [cwd] (Project() defaults to
   sources ['.']; editors and supp-lint pass such names): os.path.dirname('pkg') = '' and
   dirname('') = '', the climb `while root and exists(root/__init__.py)` ends at ''. [rel] is the list
   of components of the relative name; a relative path p denotes cwd ++ p. *)
Section Rel.
  Variable fs : path -> kind.
  Variable cwd : path.
  Fixpoint collect_rel (fuel : nat) (dir : path) (acc : list str) : option (list str) :=
    match fuel with
    | 0 => None
    | S f => if is_nil dir then Some acc
             else if exists_ fs (cwd ++ dir ++ [init_py])
                  then collect_rel f (dirname dir) (last dir [] :: acc)
                  else Some acc
    end.
  Definition norm_package_rel (level : nat) (rest : list str) (rel : path) : nres :=
    if level =? 0 then NOk rest else
    match collect_rel (S (length rel)) (Nat.iter level dirname rel) [] with
    | None => NOutOfFuel
    | Some [] => NErr
    | Some parts => NOk (parts ++ rest)
    end.
End Rel.
