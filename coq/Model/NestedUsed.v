(* Usage marking across the levels of a chain of nested functions (lint's W01 over a chain): a
   binding is used when some read of its own level or of a deeper level lists it.
   Definitions only; proofs: Proofs/NestedUsedProofs.v; tie (I): part D of harness/props/c01.py. *)
From Coq Require Import List Bool NArith.
Import ListNotations.
From Supp Require Import Model.PyCore Model.Reach Model.ReachX Model.Nested.

Definition used_in (os : list cmd) (c : cmd) (d : site) : bool :=
  existsb (fun rx => existsb (alt_eqb (Some d)) (seen_nested os c (fst rx))) (reads c).

Fixpoint used_chain (os rest : list cmd) (d : site) : bool :=
  match rest with
  | [] => false
  | c :: r => used_in os c d || used_chain (os ++ [c]) r d
  end.

Definition unused_chain (bodies : list cmd) : list site :=
  filter (fun d => negb (used_chain [] bodies d)) (concat (map bind_sites bodies)).
