(* Positions and the position-dependent operations of supp (definitions only; proofs in
   Proofs/LayoutProofs.v).

   pos_ltb        supp/util.py:85-96    Location.__lt__  (tuple comparison of (line, column))
   insert_loc     supp/util.py:99-104   append when greater than the last element, else bisect.insort
   bisect         supp/scope.py:127     bisect(self._names, Location(loc))   (bisect_right)

   insert_loc / bisect are generic in the comparison [lt x y] ("x < y"), which is all they use of a
   position: this is what C13 exploits.  bisect_right is modelled as the linear scan for the first
   element greater than x; on a list that insert_loc built (sorted) the binary search of CPython
   returns the same index. *)
From Coq Require Import List Bool Arith NArith.
Import ListNotations.

Definition pos := (N * N)%type.

Definition pos_ltb (a b : pos) : bool :=
  (fst a <? fst b)%N || ((fst a =? fst b)%N && (snd a <? snd b)%N).

Definition pos_eqb (a b : pos) : bool := (fst a =? fst b)%N && (snd a =? snd b)%N.

Section Generic.
  Context {A : Type}.
  Variable lt : A -> A -> bool.

  (* index of the first element e with x < e (= bisect_right on a sorted list); [gt e] = "x < e",
     so that the probe x need not be an element (names_at probes with a bare position) *)
  Fixpoint bisect_by (gt : A -> bool) (l : list A) : nat :=
    match l with
    | [] => 0
    | e :: r => if gt e then 0 else S (bisect_by gt r)
    end.

  Definition bisect (l : list A) (x : A) : nat := bisect_by (fun e => lt x e) l.

  Fixpoint insert_at (i : nat) (x : A) (l : list A) : list A :=
    match i, l with
    | 0, _ => x :: l
    | S i', e :: r => e :: insert_at i' x r
    | S _, [] => [x]
    end.

  Fixpoint last_opt (l : list A) : option A :=
    match l with
    | [] => None
    | [e] => Some e
    | _ :: r => last_opt r
    end.

  (* util.py:99-104 *)
  Definition insert_loc (l : list A) (x : A) : list A :=
    match last_opt l with
    | Some e => if lt e x then l ++ [x] else insert_at (bisect l x) x l
    | None => insert_at (bisect l x) x l
    end.

  (* Flow._names after the bindings were added in creation order (Flow.add_name) *)
  Definition build (created : list A) : list A := fold_left insert_loc created [].

  (* no element is greater than a later one *)
  Fixpoint sortedb (l : list A) : bool :=
    match l with
    | [] => true
    | e :: r => forallb (fun y => negb (lt y e)) r && sortedb r
    end.
End Generic.

(* Two comparisons agree on a domain of items: the notion behind C13's order_equiv. *)
Definition agree_on {A} (dom : list A) (lt1 lt2 : A -> A -> bool) : Prop :=
  forall x y, In x dom -> In y dom -> lt1 x y = lt2 x y.
