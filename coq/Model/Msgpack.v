(* Model of the MessagePack codec vendored in supp (supp/umsgpack.py, Python 3 paths).
   Definitions only; proofs are in Proofs/Msgpack*.v, the specification in Model/MsgpackSpec.v.

   encode   = umsgpack.dumps = _packb3 -> _pack3 -> _pack_*       (umsgpack.py:218-336, 390-435, 460-481)
   decode   = umsgpack.loads = _unpackb3 -> _unpack -> _unpack_*  (umsgpack.py:487-647, 749-781, 829-880)
   dispatch = _unpack_dispatch_table                              (umsgpack.py:829-880)

   Bytes are N (< 256).  A Python str is modelled by its UTF-8 bytes, a Python float by its IEEE-754
   binary64 bit pattern (N < 2^64), list and tuple are both Arr, a dict is the list of its items in
   insertion order.  compatibility = False, _float_size = 64 (CPython on IEEE hardware). *)
From Coq Require Import List Bool Arith NArith ZArith.
Import ListNotations.
Local Open Scope N_scope.

Definition bytes := list N.

(* ------------------------------------------------------------------------------------------ *)
(* Values of the data model                                                                    *)
(* ------------------------------------------------------------------------------------------ *)

Inductive value : Type :=
| Nil
| Bool (b : bool)
| Int (z : Z)
| F64 (bits : N)                       (* binary64 bit pattern *)
| Str (utf8 : bytes)                   (* UTF-8 bytes of the str *)
| Bin (data : bytes)
| Arr (items : list value)             (* list or tuple *)
| Map (items : list (value * value))   (* dict items in insertion order *)
| Ext (ty : N) (data : bytes).

Inductive error :=
| Insufficient      (* InsufficientDataException *)
| Reserved          (* ReservedCodeException *)
| InvalidString     (* InvalidStringException *)
| Unhashable        (* UnhashableKeyException *)
| Duplicate         (* DuplicateKeyException *)
| ExtType           (* TypeError("ext type out of range") escaping from Ext.__init__, umsgpack.py:94-95, 594 *)
| LogicError        (* the "logic error" Exception of the per-family decoders: never reached through the table *)
| OutOfFuel.        (* artefact of the model's explicit fuel: proved unreachable for decode *)

Inductive result (A : Type) : Type :=
| Ok (a : A)
| Err (e : error).
Arguments Ok {A} a.
Arguments Err {A} e.

(* ------------------------------------------------------------------------------------------ *)
(* Bytes: big-endian numbers, reading                                                          *)
(* ------------------------------------------------------------------------------------------ *)

(* struct.pack(">B/H/I/Q", n): the k low-order bytes of n, most significant first *)
Fixpoint be (k : nat) (n : N) : bytes :=
  match k with
  | O => []
  | S k' => be k' (n / 256) ++ [n mod 256]
  end.

(* struct.unpack(">B/H/I/Q", bs) *)
Definition unbe (bs : bytes) : N := fold_left (fun a b => a * 256 + b) bs 0.

(* fp.read(n) on the rest of the buffer: Some (data, rest) when n bytes are there.
   Structural on the buffer with a binary counter: a claimed length of 2^32-1 costs nothing. *)
Fixpoint read (n : N) (bs : bytes) {struct bs} : option (bytes * bytes) :=
  if n =? 0 then Some ([], bs)
  else match bs with
       | [] => None
       | b :: r => match read (N.pred n) r with
                   | None => None
                   | Some (x, y) => Some (b :: x, y)
                   end
       end.

(* _read_except, umsgpack.py:487-491 *)
Definition rd (n : N) (bs : bytes) : result (bytes * bytes) :=
  match read n bs with
  | Some p => Ok p
  | None => Err Insufficient
  end.

(* struct.unpack(">B/H/I/Q", _read_except(fp, k))[0] *)
Definition rd_uint (k : N) (bs : bytes) : result (N * bytes) :=
  match rd k bs with
  | Err e => Err e
  | Ok (x, r) => Ok (unbe x, r)
  end.

(* two's complement reading of an unsigned [half*2]-modulus number: struct.unpack(">b/h/i/q") *)
Definition to_signed (half : N) (u : N) : Z :=
  if u <? half then Z.of_N u else (Z.of_N u - 2 * Z.of_N half)%Z.

Definition p7 : N := 128.
Definition p8 : N := 256.
Definition p15 : N := 32768.
Definition p16 : N := 65536.
Definition p31 : N := 2147483648.
Definition p32 : N := 4294967296.
Definition p63 : N := 9223372036854775808.
Definition p64 : N := 18446744073709551616.

(* ------------------------------------------------------------------------------------------ *)
(* UTF-8 validity (what bytes.decode(…, 'utf-8') accepts: Unicode 15 table 3-7)                *)
(* ------------------------------------------------------------------------------------------ *)

Definition inr (lo hi x : N) : bool := (lo <=? x) && (x <=? hi).
Definition cont (x : N) : bool := inr 128 191 x.

Fixpoint utf8_valid (s : bytes) : bool :=
  match s with
  | [] => true
  | a :: r =>
      if a <=? 127 then utf8_valid r
      else if inr 194 223 a then                                   (* C2..DF 80..BF *)
        match r with b :: r' => cont b && utf8_valid r' | _ => false end
      else if a =? 224 then                                        (* E0 A0..BF 80..BF *)
        match r with b :: c :: r' => inr 160 191 b && cont c && utf8_valid r' | _ => false end
      else if inr 225 236 a || inr 238 239 a then                  (* E1..EC, EE..EF *)
        match r with b :: c :: r' => cont b && cont c && utf8_valid r' | _ => false end
      else if a =? 237 then                                        (* ED 80..9F 80..BF (no surrogates) *)
        match r with b :: c :: r' => inr 128 159 b && cont c && utf8_valid r' | _ => false end
      else if a =? 240 then                                        (* F0 90..BF 80..BF 80..BF *)
        match r with b :: c :: d :: r' => inr 144 191 b && cont c && cont d && utf8_valid r' | _ => false end
      else if inr 241 243 a then                                   (* F1..F3 *)
        match r with b :: c :: d :: r' => cont b && cont c && cont d && utf8_valid r' | _ => false end
      else if a =? 244 then                                        (* F4 80..8F (<= U+10FFFF) *)
        match r with b :: c :: d :: r' => inr 128 143 b && cont c && cont d && utf8_valid r' | _ => false end
      else false
  end.

(* ------------------------------------------------------------------------------------------ *)
(* Floats as bit patterns                                                                      *)
(* ------------------------------------------------------------------------------------------ *)

(* struct.unpack(">f") followed by the C float -> double conversion, on bit patterns.
   (x86-64: the conversion quiets a signalling NaN, i.e. sets the top fraction bit.) *)
Definition widen32 (b : N) : N :=
  let s := (b / p31) mod 2 in
  let e := (b / 8388608) mod 256 in
  let f := b mod 8388608 in
  let sign := s * p63 in
  if e =? 255 then
    if f =? 0 then sign + 2047 * 4503599627370496
    else let fr := f * 536870912 in
         sign + 2047 * 4503599627370496 + (if fr <? 2251799813685248 then fr + 2251799813685248 else fr)
  else if e =? 0 then
    if f =? 0 then sign
    else (* subnormal single: f * 2^-149, normal as a double *)
      let k := N.size f in                       (* number of significant bits, 1..23 *)
      sign + (k + 873) * 4503599627370496 + (f * 2 ^ (53 - k)) mod 4503599627370496
  else sign + (e + 896) * 4503599627370496 + f * 536870912.

Definition f64_exp (b : N) : N := (b / 4503599627370496) mod 2048.
Definition f64_frac (b : N) : N := b mod 4503599627370496.
Definition f64_neg (b : N) : bool := (b / p63) mod 2 =? 1.
Definition f64_is_nan (b : N) : bool := (f64_exp b =? 2047) && negb (f64_frac b =? 0).
Definition f64_is_zero (b : N) : bool := b mod p63 =? 0.

(* Python's  float == int  (exact, Objects/floatobject.c float_richcompare) *)
Definition f64_eq_int (b : N) (z : Z) : bool :=
  if f64_exp b =? 2047 then false
  else
    let m := if f64_exp b =? 0 then Z.of_N (f64_frac b) else (4503599627370496 + Z.of_N (f64_frac b))%Z in
    let x := if f64_exp b =? 0 then (-1074)%Z else (Z.of_N (f64_exp b) - 1075)%Z in
    let sm := if f64_neg b then (- m)%Z else m in
    if (0 <=? x)%Z then (z =? sm * 2 ^ x)%Z
    else ((sm mod 2 ^ (- x) =? 0) && (z =? sm / 2 ^ (- x)))%Z.

(* Python's  float == float  on two distinct objects *)
Definition f64_eq (a b : N) : bool :=
  if f64_is_nan a || f64_is_nan b then false
  else if f64_is_zero a && f64_is_zero b then true
  else a =? b.

(* ------------------------------------------------------------------------------------------ *)
(* Python equality and hashability of decoded keys                                             *)
(* ------------------------------------------------------------------------------------------ *)

Fixpoint bytes_eqb (a b : bytes) : bool :=
  match a, b with
  | [], [] => true
  | x :: a', y :: b' => (x =? y) && bytes_eqb a' b'
  | _, _ => false
  end.

Inductive num := NumI (z : Z) | NumF (bits : N).

Definition num_of (v : value) : option num :=
  match v with
  | Bool b => Some (NumI (if b then 1 else 0)%Z)
  | Int z => Some (NumI z)
  | F64 b => Some (NumF b)
  | _ => None
  end.

Definition num_eq (a b : num) : bool :=
  match a, b with
  | NumI x, NumI y => (x =? y)%Z
  | NumI x, NumF g => f64_eq_int g x
  | NumF f, NumI y => f64_eq_int f y
  | NumF f, NumF g => f64_eq f g
  end.

(* k1 == k2 for two decoded keys (distinct objects; a list key has become a tuple).
   True == 1 == 1.0, 'a' != b'a', nan != nan, tuples element-wise. *)
Fixpoint py_eq (a b : value) : bool :=
  match a, b with
  | Int x, Int y => (x =? y)%Z              (* the common case first (same result as the general rule) *)
  | _, _ =>
  match num_of a, num_of b with
  | Some x, Some y => num_eq x y
  | Some _, None | None, Some _ => false
  | None, None =>
      match a, b with
      | Nil, Nil => true
      | Str s, Str t => bytes_eqb s t
      | Bin s, Bin t => bytes_eqb s t
      | Arr l, Arr m =>
          (fix go (l m : list value) : bool :=
             match l, m with
             | [], [] => true
             | x :: l', y :: m' => py_eq x y && go l' m'
             | _, _ => false
             end) l m
      | _, _ => false
      end
  end
  end.

(* hash(k) succeeds, k being a key after _deep_list_to_tuple: dict and Ext (defines __eq__ without
   __hash__) are unhashable, a tuple is hashable iff its members are. *)
Fixpoint hashable (v : value) : bool :=
  match v with
  | Map _ => false
  | Ext _ _ => false
  | Arr l => forallb hashable l
  | _ => true
  end.

Definition is_arr (v : value) : bool := match v with Arr _ => true | _ => false end.

Definition key_in (k : value) (d : list (value * value)) : bool :=
  existsb (fun kv => py_eq (fst kv) k) d.

(* d[k] = v on a dict held as its item list: an equal key keeps its place and its key object *)
Fixpoint dict_set (d : list (value * value)) (k v : value) : list (value * value) :=
  match d with
  | [] => [(k, v)]
  | (k', v') :: d' => if py_eq k' k then (k', v) :: d' else (k', v') :: dict_set d' k v
  end.

(* ------------------------------------------------------------------------------------------ *)
(* encode                                                                                      *)
(* ------------------------------------------------------------------------------------------ *)

(* _pack_integer, umsgpack.py:218-244; None = UnsupportedTypeException *)
Definition pack_integer (z : Z) : option bytes :=
  if (z <? 0)%Z then
    if (-32 <=? z)%Z then Some [Z.to_N (z + 256)]
    else if (-128 <=? z)%Z then Some (208 :: be 1 (Z.to_N (z + 256)))
    else if (-32768 <=? z)%Z then Some (209 :: be 2 (Z.to_N (z + 65536)))
    else if (-2147483648 <=? z)%Z then Some (210 :: be 4 (Z.to_N (z + 4294967296)))
    else if (-9223372036854775808 <=? z)%Z then Some (211 :: be 8 (Z.to_N (z + 18446744073709551616)))
    else None
  else
    if (z <=? 127)%Z then Some [Z.to_N z]
    else if (z <=? 255)%Z then Some (204 :: be 1 (Z.to_N z))
    else if (z <=? 65535)%Z then Some (205 :: be 2 (Z.to_N z))
    else if (z <=? 4294967295)%Z then Some (206 :: be 4 (Z.to_N z))
    else if (z <=? 18446744073709551615)%Z then Some (207 :: be 8 (Z.to_N z))
    else None.

Definition len (A : Type) (l : list A) : N := N.of_nat (length l).
Arguments len {A} l.

(* _pack_string, umsgpack.py:258-269 (obj already encoded to UTF-8) *)
Definition pack_string (s : bytes) : option bytes :=
  let n := len s in
  if n <=? 31 then Some ((160 + n) :: s)
  else if n <=? 255 then Some (217 :: be 1 n ++ s)
  else if n <=? 65535 then Some (218 :: be 2 n ++ s)
  else if n <=? 4294967295 then Some (219 :: be 4 n ++ s)
  else None.

(* _pack_binary, umsgpack.py:271-279 *)
Definition pack_binary (s : bytes) : option bytes :=
  let n := len s in
  if n <=? 255 then Some (196 :: be 1 n ++ s)
  else if n <=? 65535 then Some (197 :: be 2 n ++ s)
  else if n <=? 4294967295 then Some (198 :: be 4 n ++ s)
  else None.

(* _pack_ext, umsgpack.py:291-309; obj.type & 0xff = ty mod 256 *)
Definition pack_ext (ty : N) (d : bytes) : option bytes :=
  let n := len d in
  let t := ty mod 256 in
  if n =? 1 then Some (212 :: t :: d)
  else if n =? 2 then Some (213 :: t :: d)
  else if n =? 4 then Some (214 :: t :: d)
  else if n =? 8 then Some (215 :: t :: d)
  else if n =? 16 then Some (216 :: t :: d)
  else if n <=? 255 then Some (199 :: be 1 n ++ t :: d)
  else if n <=? 65535 then Some (200 :: be 2 n ++ t :: d)
  else if n <=? 4294967295 then Some (201 :: be 4 n ++ t :: d)
  else None.

(* header of _pack_array, umsgpack.py:311-319 *)
Definition array_header (n : N) : option bytes :=
  if n <=? 15 then Some [144 + n]
  else if n <=? 65535 then Some (220 :: be 2 n)
  else if n <=? 4294967295 then Some (221 :: be 4 n)
  else None.

(* header of _pack_map, umsgpack.py:324-332 *)
Definition map_header (n : N) : option bytes :=
  if n <=? 15 then Some [128 + n]
  else if n <=? 65535 then Some (222 :: be 2 n)
  else if n <=? 4294967295 then Some (223 :: be 4 n)
  else None.

Definition opt_app (a b : option bytes) : option bytes :=
  match a, b with
  | Some x, Some y => Some (x ++ y)
  | _, _ => None
  end.

(* _pack3, umsgpack.py:390-435.  None = UnsupportedTypeException (the only exception the packers
   raise on values of the data model). *)
Fixpoint encode (v : value) : option bytes :=
  match v with
  | Nil => Some [192]
  | Bool b => Some [if b then 195 else 194]
  | Int z => pack_integer z
  | F64 bits => Some (203 :: be 8 bits)
  | Str s => pack_string s
  | Bin s => pack_binary s
  | Ext ty d => pack_ext ty d
  | Arr l =>
      opt_app (array_header (len l))
        ((fix go (l : list value) : option bytes :=
            match l with
            | [] => Some []
            | x :: l' => opt_app (encode x) (go l')
            end) l)
  | Map kvs =>
      opt_app (map_header (len kvs))
        ((fix go (l : list (value * value)) : option bytes :=
            match l with
            | [] => Some []
            | (k, x) :: l' => opt_app (opt_app (encode k) (encode x)) (go l')
            end) kvs)
  end.

(* the two inner loops of encode, by name (equal to the local fixes above by reflexivity) *)
Fixpoint encode_list (l : list value) : option bytes :=
  match l with
  | [] => Some []
  | x :: l' => opt_app (encode x) (encode_list l')
  end.

Fixpoint encode_pairs (l : list (value * value)) : option bytes :=
  match l with
  | [] => Some []
  | (k, x) :: l' => opt_app (opt_app (encode k) (encode x)) (encode_pairs l')
  end.

(* ------------------------------------------------------------------------------------------ *)
(* decode                                                                                      *)
(* ------------------------------------------------------------------------------------------ *)

(* the decoder families of _unpack_dispatch_table *)
Inductive family :=
| FInteger | FMap | FArray | FString | FNil | FReserved | FBoolean | FBinary | FExt | FFloat.

(* _unpack_dispatch_table, umsgpack.py:829-880 *)
Definition dispatch (c : N) : family :=
  if c <=? 127 then FInteger          (* 00..7f fix uint *)
  else if c <=? 143 then FMap         (* 80..8f fix map *)
  else if c <=? 159 then FArray       (* 90..9f fix array *)
  else if c <=? 191 then FString      (* a0..bf fix str *)
  else if c =? 192 then FNil
  else if c =? 193 then FReserved
  else if c <=? 195 then FBoolean     (* c2 c3 *)
  else if c <=? 198 then FBinary      (* c4..c6 *)
  else if c <=? 201 then FExt         (* c7..c9 *)
  else if c <=? 203 then FFloat       (* ca cb *)
  else if c <=? 211 then FInteger     (* cc..cf uint, d0..d3 int *)
  else if c <=? 216 then FExt         (* d4..d8 fixext *)
  else if c <=? 219 then FString      (* d9..db *)
  else if c <=? 221 then FArray       (* dc dd *)
  else if c <=? 223 then FMap         (* de df *)
  else FInteger.                      (* e0..ff negative fixint *)

(* _unpack_integer, umsgpack.py:493-514 *)
Definition unpack_integer (c : N) (r : bytes) : result (value * bytes) :=
  let signed k half :=
    match rd_uint k r with Err e => Err e | Ok (u, r') => Ok (Int (to_signed half u), r') end in
  let unsigned k :=
    match rd_uint k r with Err e => Err e | Ok (u, r') => Ok (Int (Z.of_N u), r') end in
  if 224 <=? c then Ok (Int (Z.of_N c - 256), r)     (* (code & 0xe0) == 0xe0 *)
  else if c =? 208 then signed 1 p7
  else if c =? 209 then signed 2 p15
  else if c =? 210 then signed 4 p31
  else if c =? 211 then signed 8 p63
  else if c <? 128 then Ok (Int (Z.of_N c), r)       (* (code & 0x80) == 0 *)
  else if c =? 204 then unsigned 1
  else if c =? 205 then unsigned 2
  else if c =? 206 then unsigned 4
  else if c =? 207 then unsigned 8
  else Err LogicError.

(* _unpack_float, umsgpack.py:533-538 *)
Definition unpack_float (c : N) (r : bytes) : result (value * bytes) :=
  if c =? 202 then
    match rd_uint 4 r with Err e => Err e | Ok (u, r') => Ok (F64 (widen32 u), r') end
  else if c =? 203 then
    match rd_uint 8 r with Err e => Err e | Ok (u, r') => Ok (F64 u, r') end
  else Err LogicError.

(* length part of _unpack_string, umsgpack.py:541-550 *)
Definition string_length (c : N) (r : bytes) : result (N * bytes) :=
  if inr 160 191 c then Ok (c mod 32, r)              (* (code & 0xe0) == 0xa0 ; code & ~0xe0 *)
  else if c =? 217 then rd_uint 1 r
  else if c =? 218 then rd_uint 2 r
  else if c =? 219 then rd_uint 4 r
  else Err LogicError.

(* _unpack_string, umsgpack.py:540-560 (compatibility = False) *)
Definition unpack_string (c : N) (r : bytes) : result (value * bytes) :=
  match string_length c r with
  | Err e => Err e
  | Ok (n, r1) =>
      match rd n r1 with
      | Err e => Err e
      | Ok (s, r2) => if utf8_valid s then Ok (Str s, r2) else Err InvalidString
      end
  end.

(* _unpack_binary, umsgpack.py:562-572 *)
Definition binary_length (c : N) (r : bytes) : result (N * bytes) :=
  if c =? 196 then rd_uint 1 r
  else if c =? 197 then rd_uint 2 r
  else if c =? 198 then rd_uint 4 r
  else Err LogicError.

Definition unpack_binary (c : N) (r : bytes) : result (value * bytes) :=
  match binary_length c r with
  | Err e => Err e
  | Ok (n, r1) =>
      match rd n r1 with
      | Err e => Err e
      | Ok (s, r2) => Ok (Bin s, r2)
      end
  end.

(* _unpack_ext, umsgpack.py:574-594: type byte, then data, then Ext(type, data) *)
Definition ext_length (c : N) (r : bytes) : result (N * bytes) :=
  if c =? 212 then Ok (1, r)
  else if c =? 213 then Ok (2, r)
  else if c =? 214 then Ok (4, r)
  else if c =? 215 then Ok (8, r)
  else if c =? 216 then Ok (16, r)
  else if c =? 199 then rd_uint 1 r
  else if c =? 200 then rd_uint 2 r
  else if c =? 201 then rd_uint 4 r
  else Err LogicError.

Definition unpack_ext (c : N) (r : bytes) : result (value * bytes) :=
  match ext_length c r with
  | Err e => Err e
  | Ok (n, r1) =>
      match rd_uint 1 r1 with
      | Err e => Err e
      | Ok (ty, r2) =>
          match rd n r2 with
          | Err e => Err e
          | Ok (d, r3) => if ty <=? 127 then Ok (Ext ty d, r3) else Err ExtType
          end
      end
  end.

(* length part of _unpack_array, umsgpack.py:597-604 *)
Definition array_length (c : N) (r : bytes) : result (N * bytes) :=
  if inr 144 159 c then Ok (c mod 16, r)
  else if c =? 220 then rd_uint 2 r
  else if c =? 221 then rd_uint 4 r
  else Err LogicError.

(* length part of _unpack_map, umsgpack.py:614-621 *)
Definition map_length (c : N) (r : bytes) : result (N * bytes) :=
  if inr 128 143 c then Ok (c mod 16, r)
  else if c =? 222 then rd_uint 2 r
  else if c =? 223 then rd_uint 4 r
  else Err LogicError.

(* [_unpack(fp) for i in range(length)], umsgpack.py:606.  [d] is _unpack, [j] bounds the number of
   iterations (every successful _unpack consumes at least one byte). *)
Fixpoint items (d : bytes -> result (value * bytes)) (j : nat) (n : N) (bs : bytes)
  : result (list value * bytes) :=
  if n =? 0 then Ok ([], bs)
  else match j with
       | O => Err OutOfFuel
       | S j' =>
           match d bs with
           | Err e => Err e
           | Ok (v, r) =>
               match items d j' (N.pred n) r with
               | Err e => Err e
               | Ok (l, r') => Ok (v :: l, r')
               end
           end
       end.

(* the key test of _unpack_map, umsgpack.py:628-634: a list key is converted and NOT tested *)
Definition key_check (k : value) (acc : list (value * value)) : option error :=
  if is_arr k then None
  else if negb (hashable k) then Some Unhashable
  else if key_in k acc then Some Duplicate
  else None.

(* the loop of _unpack_map, umsgpack.py:623-643; [acc] is the dict built so far *)
Fixpoint pairs (d : bytes -> result (value * bytes)) (j : nat) (n : N) (acc : list (value * value))
  (bs : bytes) : result (list (value * value) * bytes) :=
  if n =? 0 then Ok (acc, bs)
  else match j with
       | O => Err OutOfFuel
       | S j' =>
           match d bs with
           | Err e => Err e
           | Ok (k, r) =>
               match key_check k acc with
               | Some e => Err e
               | None =>
                   match d r with
                   | Err e => Err e
                   | Ok (v, r') =>
                       (* d[k] = v ; TypeError (tuple with an unhashable member) -> Unhashable *)
                       if hashable k then pairs d j' (N.pred n) (dict_set acc k v) r'
                       else Err Unhashable
                   end
               end
           end
       end.

(* _unpack, umsgpack.py:645-647, with the per-family decoders.  The fuel bounds nesting depth and
   element counts at once; S (length bs) always suffices (Proofs: decode_never_out_of_fuel). *)
Fixpoint dec (f : nat) (bs : bytes) {struct f} : result (value * bytes) :=
  match f with
  | O => Err OutOfFuel
  | S f' =>
      match bs with
      | [] => Err Insufficient                          (* code = _read_except(fp, 1) *)
      | c :: r =>
          match dispatch c with
          | FInteger => unpack_integer c r
          | FNil => if c =? 192 then Ok (Nil, r) else Err LogicError
          | FReserved => if c =? 193 then Err Reserved else Err LogicError
          | FBoolean => if c =? 194 then Ok (Bool false, r)
                        else if c =? 195 then Ok (Bool true, r) else Err LogicError
          | FFloat => unpack_float c r
          | FString => unpack_string c r
          | FBinary => unpack_binary c r
          | FExt => unpack_ext c r
          | FArray =>
              match array_length c r with
              | Err e => Err e
              | Ok (n, r1) =>
                  match items (dec f') f' n r1 with
                  | Err e => Err e
                  | Ok (l, r2) => Ok (Arr l, r2)
                  end
              end
          | FMap =>
              match map_length c r with
              | Err e => Err e
              | Ok (n, r1) =>
                  match pairs (dec f') f' n [] r1 with
                  | Err e => Err e
                  | Ok (kvs, r2) => Ok (Map kvs, r2)
                  end
              end
          end
      end
  end.

(* umsgpack.loads(bs) together with the unread rest of the buffer (fp.tell()) *)
Definition decode (bs : bytes) : result (value * bytes) := dec (S (length bs)) bs.

(* the dispatch table as data, for the table comparison of the check *)
Definition family_id (f : family) : N :=
  match f with
  | FInteger => 0 | FMap => 1 | FArray => 2 | FString => 3 | FNil => 4
  | FReserved => 5 | FBoolean => 6 | FBinary => 7 | FExt => 8 | FFloat => 9
  end.

Definition dispatch_table : list N :=
  map (fun i => family_id (dispatch (N.of_nat i))) (seq 0 256).

(* ------------------------------------------------------------------------------------------ *)
(* Well-formed values: the data model of the property                                          *)
(* ------------------------------------------------------------------------------------------ *)

Definition bytes_ok (s : bytes) : bool := forallb (fun x => x <? 256) s.

(* pairwise distinct under Python equality, in dict order *)
Fixpoint distinct_keys (ks : list value) : bool :=
  match ks with
  | [] => true
  | k :: r => forallb (fun k' => negb (py_eq k k')) r && distinct_keys r
  end.

Fixpoint wf (v : value) : bool :=
  match v with
  | Nil => true
  | Bool _ => true
  | Int z => ((-9223372036854775808 <=? z) && (z <? 18446744073709551616))%Z
  | F64 b => b <? p64
  | Str s => utf8_valid s && bytes_ok s && (len s <? p32)
  | Bin s => bytes_ok s && (len s <? p32)
  | Ext ty d => (ty <=? 127) && bytes_ok d && (len d <? p32)
  | Arr l => forallb wf l && (len l <? p32)
  | Map kvs =>
      forallb (fun kv => wf (fst kv) && wf (snd kv)) kvs
      && forallb (fun kv => hashable (fst kv)) kvs
      && distinct_keys (map fst kvs)
      && (len kvs <? p32)
  end.

(* ------------------------------------------------------------------------------------------ *)
(* Helpers for case files (run-length and arithmetic-progression byte strings)                  *)
(* ------------------------------------------------------------------------------------------ *)

Definition rp (b : N) (n : N) : bytes := repeat b (N.to_nat n).
Definition rpv (v : value) (n : N) : list value := repeat v (N.to_nat n).

(* for i = start .. start+count-1 : pre ++ (k-byte big-endian i) ++ suf *)
Fixpoint seg_from (c : nat) (i : N) (pre : bytes) (k : nat) (suf : bytes) : bytes :=
  match c with
  | O => []
  | S c' => pre ++ be k i ++ suf ++ seg_from c' (i + 1) pre k suf
  end.
Definition seg (start count : N) (pre : bytes) (k : nat) (suf : bytes) : bytes :=
  seg_from (N.to_nat count) start pre k suf.

Fixpoint value_eqb (a b : value) : bool :=
  match a, b with
  | Nil, Nil => true
  | Bool x, Bool y => Bool.eqb x y
  | Int x, Int y => (x =? y)%Z
  | F64 x, F64 y => x =? y
  | Str s, Str t => bytes_eqb s t
  | Bin s, Bin t => bytes_eqb s t
  | Ext t1 d1, Ext t2 d2 => (t1 =? t2) && bytes_eqb d1 d2
  | Arr l, Arr m =>
      (fix go (l m : list value) : bool :=
         match l, m with
         | [], [] => true
         | x :: l', y :: m' => value_eqb x y && go l' m'
         | _, _ => false
         end) l m
  | Map l, Map m =>
      (fix go (l m : list (value * value)) : bool :=
         match l, m with
         | [], [] => true
         | (k1, v1) :: l', (k2, v2) :: m' => value_eqb k1 k2 && value_eqb v1 v2 && go l' m'
         | _, _ => false
         end) l m
  | _, _ => false
  end.

Definition error_id (e : error) : N :=
  match e with
  | Insufficient => 0 | Reserved => 1 | InvalidString => 2 | Unhashable => 3 | Duplicate => 4
  | ExtType => 5 | LogicError => 6 | OutOfFuel => 7
  end.
