(* IMPL for C01-C03 with loop exits: supp's flow analysis once `break` and `continue` are flow
   edges (nast.py visit_Break / visit_Continue / visit_loop_body, /repo fix F62).

   [anx c s] = (N, B, C):
     N  the environment in the flow the command ends in (supp still lets the flow go on behind
        an exit: a sound over-approximation),
     B  the join of the environments of the flows that leave the innermost enclosing loop at a
        `break` inside c (bottom when there is none),
     C  the same for `continue`.
   A loop joins its B into the flow behind the loop (the else clause is skipped) and its C
   into the flow that goes round the loop again (the 'continue-join' flow the back edge starts
   from); breaks and continues inside its else clause belong to the loop around it.
   [seenx c s r] = the alternatives read site r is told.
   Exits inside a loop test, for-targets or an except type (not expressible in Python) are ignored.

   On commands without break/continue [anx]/[seenx] are [an]/[seen] of Model/Reach.v
   (Proofs/ReachXProofs.v, anx_nobc / seenx_nobc). *)
From Coq Require Import List Bool Arith NArith.
Import ListNotations.
From Supp Require Import Model.PyCore Model.Reach.

Definition bot : aenv := fun _ => [].

Definition nrm (t : aenv * aenv * aenv) : aenv := fst (fst t).
Definition brk (t : aenv * aenv * aenv) : aenv := snd (fst t).
Definition cnt (t : aenv * aenv * aenv) : aenv := snd t.

Fixpoint anx (c : cmd) (s : aenv) : aenv * aenv * aenv :=
  match c with
  | Skip | Read _ _ => (s, bot, bot)
  | Bind d x => (upd s x [Some d], bot, bot)
  | Exit KBrk => (s, s, bot)
  | Exit KCont => (s, bot, s)
  | Exit _ => (s, bot, bot)
  | Seq a b =>
      let ra := anx a s in
      let rb := anx b (nrm ra) in
      (nrm rb, join (brk ra) (brk rb), join (cnt ra) (cnt rb))
  | Branch a b =>
      let ra := anx a s in
      let rb := anx b s in
      (join (nrm ra) (nrm rb), join (brk ra) (brk rb), join (cnt ra) (cnt rb))
  | While t b e =>
      (* the back edge starts from the join of the body end and its continues; its names are
         computed with the back edge skipped *)
      let r1 := anx b (nrm (anx t s)) in
      let H := join s (join (nrm r1) (cnt r1)) in
      let r2 := anx b (nrm (anx t H)) in
      let re := anx e (nrm (anx t H)) in          (* while-else: parents [test] *)
      (join (nrm re) (brk r2), brk re, cnt re)    (* join: parents [orelse] + breaks *)
  | For tg b e =>
      let r1 := anx b (nrm (anx tg s)) in
      let H := join s (join (nrm r1) (cnt r1)) in
      let r2 := anx b (nrm (anx tg H)) in
      let re := anx e (join s (join (nrm r2) (cnt r2))) in   (* for-else: parents [cur, back] *)
      (join (nrm re) (brk r2), brk re, cnt re)
  | Try _ b _ hs e f =>
      let rb := anx b s in
      let hin := join s (nrm rb) in
      let re := anx e (nrm rb) in
      let rh := anx_h hs hin (nrm re, join (brk rb) (brk re), join (cnt rb) (cnt re)) in
      let rf := anx f (nrm rh) in
      (nrm rf, join (brk rh) (brk rf), join (cnt rh) (cnt rf))
  end
with anx_h (hs : hlist) (hin : aenv) (acc : aenv * aenv * aenv) : aenv * aenv * aenv :=
  match hs with
  | HNil => acc
  | HCons ty nm hb r =>
      let rhb := anx hb (bind_opt_a nm (nrm (anx ty hin))) in
      anx_h r hin (join (nrm acc) (nrm rhb), join (brk acc) (brk rhb), join (cnt acc) (cnt rhb))
  end.

Fixpoint seenx (c : cmd) (s : aenv) (r : site) : list alt :=
  match c with
  | Skip | Bind _ _ | Exit _ => []
  | Read r' x => if N.eqb r r' then s x else []
  | Seq a b => seenx a s r ++ seenx b (nrm (anx a s)) r
  | Branch a b => seenx a s r ++ seenx b s r
  | While t b e =>
      let r1 := anx b (nrm (anx t s)) in
      let H := join s (join (nrm r1) (cnt r1)) in
      seenx t H r ++ seenx b (nrm (anx t H)) r ++ seenx e (nrm (anx t H)) r
  | For tg b e =>
      let r1 := anx b (nrm (anx tg s)) in
      let H := join s (join (nrm r1) (cnt r1)) in
      let r2 := anx b (nrm (anx tg H)) in
      seenx tg H r ++ seenx b (nrm (anx tg H)) r ++ seenx e (join s (join (nrm r2) (cnt r2))) r
  | Try _ b _ hs e f =>
      let rb := anx b s in
      let hin := join s (nrm rb) in
      let re := anx e (nrm rb) in
      let rh := anx_h hs hin (nrm re, join (brk rb) (brk re), join (cnt rb) (cnt re)) in
      seenx b s r ++ seenx_h hs hin r ++ seenx e (nrm rb) r ++ seenx f (nrm rh) r
  end
with seenx_h (hs : hlist) (hin : aenv) (r : site) : list alt :=
  match hs with
  | HNil => []
  | HCons ty nm hb rest =>
      seenx ty hin r ++ seenx hb (bind_opt_a nm (nrm (anx ty hin))) r ++ seenx_h rest hin r
  end.

(* what lint / assist / location derive from it (as in Model/Reach.v) *)
Definition e02x (c : cmd) (s : aenv) (r : site) : bool := negb (existsb is_def (seenx c s r)).
Definition usedx (c : cmd) (s : aenv) (d : site) : bool :=
  existsb (fun rx => existsb (alt_eqb (Some d)) (seenx c s (fst rx))) (reads c).
Definition unused_sitesx (c : cmd) (s : aenv) : list site :=
  filter (fun d => negb (usedx c s d)) (bind_sites c).
Definition visiblex (c : cmd) (s : aenv) (r : site) : bool := existsb is_def (seenx c s r).

(* no break / continue anywhere *)
Fixpoint nobc (c : cmd) : bool :=
  match c with
  | Skip | Bind _ _ | Read _ _ => true
  | Exit k => match k with KBrk | KCont => false | _ => true end
  | Seq a b | Branch a b => nobc a && nobc b
  | While t b e | For t b e => nobc t && nobc b && nobc e
  | Try _ b _ hs e f => nobc b && nobc_h hs && nobc e && nobc f
  end
with nobc_h (hs : hlist) : bool :=
  match hs with
  | HNil => true
  | HCons ty _ hb r => nobc ty && nobc hb && nobc_h r
  end.

(* any abrupt exit *)
Fixpoint has_exit (c : cmd) : bool :=
  match c with
  | Skip | Bind _ _ | Read _ _ => false
  | Exit _ => true
  | Seq a b | Branch a b => has_exit a || has_exit b
  | While t b e | For t b e => has_exit t || has_exit b || has_exit e
  | Try _ b _ hs e f => has_exit b || has_exit_h hs || has_exit e || has_exit f
  end
with has_exit_h (hs : hlist) : bool :=
  match hs with
  | HNil => false
  | HCons ty _ hb r => has_exit ty || has_exit hb || has_exit_h r
  end.

(* The fragment of C02 with loop exits: return, break and continue anywhere except under a try
   statement that has a finally clause (K3 family: the finally clause runs with the state at the
   exit) and in a finally clause; no free `raise` (an exception raised in the middle of a try body
   reaches the handler with a state the analysis does not join, K-family as well); tests,
   for-targets and except types are exit free. *)
Fixpoint okx (c : cmd) : bool :=
  match c with
  | Skip | Bind _ _ | Read _ _ => true
  | Exit k => match k with KExc _ => false | _ => true end
  | Seq a b | Branch a b => okx a && okx b
  | While t b e | For t b e => okx t && negb (has_exit t) && okx b && okx e
  | Try _ b _ hs e f =>
      okx b && okx_h hs && okx e && okx f && negb (has_exit f) &&
      (is_skip f || negb (has_exit b || has_exit_h hs || has_exit e))
  end
with okx_h (hs : hlist) : bool :=
  match hs with
  | HNil => true
  | HCons ty _ hb r => okx ty && negb (has_exit ty) && okx hb && okx_h r
  end.
