(* Core calculus for C01-C03: one Python scope body as a command over binding and read events.
   The harness generator produces these trees and renders them (a) to plain Python for supp,
   (b) to instrumented Python for CPython; see harness/props/pygen.py.

   Names and sites are numbers. [alt] is one alternative definition of a name: [Some d] =
   binding site d, [None] = unbound (supp's UndefinedName / an absent key). *)
From Coq Require Import List Bool Arith NArith.
Import ListNotations.

Definition name := N.
Definition site := N.
Definition alt := option site.

(* kinds of abrupt exit: return, break, continue, raise of exception class i *)
Inductive exitk := KRet | KBrk | KCont | KExc (i : nat).

Inductive cmd :=
| Skip
| Seq (a b : cmd)
| Bind (d : site) (x : name)          (* any binding form: =, annotated, walrus, import, def, class, with-as *)
| Read (r : site) (x : name)          (* a Load of identifier x at read site r *)
| Branch (a b : cmd)                  (* if / else (the test's reads are Read commands before it) *)
| While (t b e : cmd)                 (* test t (re-evaluated every trip), body, else *)
| For (tg b e : cmd)                  (* targets tg (Binds, made at the start of every trip), body, else *)
| Try (rf : bool) (b : cmd) (rl : bool) (hs : hlist) (e f : cmd)
      (* try body b; when rf (rl) is set an exception of any class i may be raised before its first
         (after its last) statement; it is caught by the i-th handler of hs; else e; finally f *)
| Exit (k : exitk)
with hlist :=
| HNil
| HCons (ty : cmd) (nm : option (site * name)) (hb : cmd) (rest : hlist).
      (* except <ty reads> [as nm]: hb *)

Notation Return := (Exit KRet).

Scheme cmd_mut := Induction for cmd Sort Prop
  with hlist_mut := Induction for hlist Sort Prop.
Combined Scheme cmd_hlist_ind from cmd_mut, hlist_mut.

Fixpoint hnth (hs : hlist) (i : nat) : option (cmd * option (site * name) * cmd) :=
  match hs, i with
  | HNil, _ => None
  | HCons ty nm hb _, O => Some (ty, nm, hb)
  | HCons _ _ _ rest, S j => hnth rest j
  end.

Fixpoint hlen (hs : hlist) : nat :=
  match hs with HNil => 0 | HCons _ _ _ r => S (hlen r) end.

(* ---- environments ---------------------------------------------------------------------- *)

Definition aenv := name -> list alt.        (* analysis: alternatives per name *)
Definition renv := name -> alt.             (* run time: the one current binding per name *)

Definition upd {A} (f : name -> A) (x : name) (v : A) : name -> A :=
  fun y => if N.eqb y x then v else f y.
Definition join (s t : aenv) : aenv := fun x => s x ++ t x.

Definition aenv0 : aenv := fun _ => [None].  (* scope entry: every local is unbound *)
Definition renv0 : renv := fun _ => None.

Definition bind_opt_a (nm : option (site * name)) (s : aenv) : aenv :=
  match nm with Some (d, x) => upd s x [Some d] | None => s end.
Definition bind_opt_r (nm : option (site * name)) (p : renv) : renv :=
  match nm with Some (d, x) => upd p x (Some d) | None => p end.

(* ---- syntactic predicates ------------------------------------------------------------------ *)

Fixpoint has_ret (c : cmd) : bool :=
  match c with
  | Skip | Bind _ _ | Read _ _ => false
  | Exit _ => true
  | Seq a b | Branch a b => has_ret a || has_ret b
  | While t b e | For t b e => has_ret t || has_ret b || has_ret e
  | Try _ b _ hs e f => has_ret b || has_ret_h hs || has_ret e || has_ret f
  end
with has_ret_h (hs : hlist) : bool :=
  match hs with
  | HNil => false
  | HCons ty _ hb r => has_ret ty || has_ret hb || has_ret_h r
  end.

Definition is_skip (c : cmd) : bool := match c with Skip => true | _ => false end.

(* The fragment of C02: structured control flow. A raise happens only at the two designated
   points of a try body and is caught by a handler of the same try; loop tests, for-targets,
   except-types and finally bodies contain no return; a try with a non-trivial finally contains
   no return at all (finally would run from an environment the flow graph has no node for). *)
Fixpoint ok (c : cmd) : bool :=
  match c with
  | Skip | Bind _ _ | Read _ _ => true
  | Exit k => match k with KRet => true | _ => false end   (* C02: no break/continue/free raise *)
  | Seq a b | Branch a b => ok a && ok b
  | While t b e | For t b e => ok t && ok b && ok e && negb (has_ret t)
  | Try rf b rl hs e f =>
      ok b && ok_h hs && ok e && ok f && negb (has_ret f) &&
      (is_skip f || negb (has_ret b || has_ret_h hs || has_ret e))
  end
with ok_h (hs : hlist) : bool :=
  match hs with
  | HNil => true
  | HCons ty _ hb r => ok ty && negb (has_ret ty) && ok hb && ok_h r
  end.

(* names bound somewhere in a command *)
Fixpoint binds (c : cmd) : list name :=
  match c with
  | Skip | Read _ _ | Exit _ => []
  | Bind _ x => [x]
  | Seq a b | Branch a b => binds a ++ binds b
  | While t b e | For t b e => binds t ++ binds b ++ binds e
  | Try _ b _ hs e f => binds b ++ binds_h hs ++ binds e ++ binds f
  end
with binds_h (hs : hlist) : list name :=
  match hs with
  | HNil => []
  | HCons ty nm hb r =>
      binds ty ++ (match nm with Some (_, x) => [x] | None => [] end) ++ binds hb ++ binds_h r
  end.
