(* Model of attribute tables of classes and instances (definitions only; proofs in
   Proofs/AttrsProofs.v).

   IMPL  class_attrs     supp/name.py  ClassObject._attrs / bases / _cls_attrs   (name.py:365-383)
         inst_assigned   supp/name.py  InstanceValue._instance_attrs             (after fix F5)
         inst_attrs      supp/name.py  InstanceValue._attrs                      (after fix F5)
         inst_attrs_asis supp/name.py  InstanceValue._attrs on the pinned tree   (name.py:415-424, defect F5)
   REF   dfs / mro / py_class_lookup / py_instance_lookup : Python's attribute lookup
         (type.__mro__, then "instance __dict__ first, then the classes of the MRO"),
         c3_mro : the C3 linearisation CPython computes (Objects/typeobject.c mro_implementation).

   A hierarchy is a class table: row i describes class i; the bases of a row refer to EARLIER rows
   (smaller index), so every table is acyclic by construction (cycles belong to C08).  A base index
   that is not earlier denotes a base expression that does not evaluate to a class: it contributes
   nothing (name.py:374 filters such bases out).  Row 0 is by convention the builtin `object`.
   Builtin classes (object, dict, Exception) are rows without bases whose [own] lists vars(type)
   (that is all supp sees of them: RuntimeName._attrs, name.py:235-241) with the site rt_site. *)
From Coq Require Import List Bool Arith NArith.
Import ListNotations.

Definition name := N.                       (* identifiers are interned by the harness *)
Definition site := (N * N * N)%type.        (* (module id, line, column); module 0 = no source position *)
Definition cid := nat.
Definition rt_site : site := (0, 0, 0)%N.

Record cls := mkCls {
  bases : list cid;                         (* base classes, left to right, as written *)
  own : list (name * site);                 (* names bound in the class body, in execution order *)
  self_assigned : list (name * site)        (* `self.x = ...` in any method of the class, in source order *)
}.
Definition table := list cls.
Definition empty_cls : cls := mkCls [] [] [].
Definition row (T : table) (c : cid) : cls := nth c T empty_cls.
Definition obj : cid := 0.

Definition site_eqb (a b : site) : bool :=
  match a, b with (m1, l1, c1), (m2, l2, c2) => N.eqb m1 m2 && N.eqb l1 l2 && N.eqb c1 c2 end.

(* ---- dictionaries: association lists, the FIRST binding of a key is the live one -------------- *)
Section Dict.
  Context {V : Type}.
  Definition dict := list (name * V).
  Fixpoint get (x : name) (d : dict) : option V :=
    match d with
    | [] => None
    | (y, v) :: r => if N.eqb x y then Some v else get x r
    end.
  (* d.update(e): the bindings of e shadow those of d *)
  Definition update (d e : dict) : dict := e ++ d.
  (* dict filled by successive assignments d[x] = v in list order: the LAST assignment is live *)
  Definition dict_of (l : list (name * V)) : dict := rev l.
  Definition keys (d : dict) : list name := map fst d.
  Definition has (x : name) (d : dict) : bool := existsb (fun p => N.eqb x (fst p)) d.
End Dict.
Arguments dict V : clear implicits.

(* ---- tables are processed row by row; row i sees the results of rows < i ---------------------- *)
Section Build.
  Context {R : Type} (dflt : R) (f : (cid -> R) -> cid -> cls -> R).
  (* [rs] holds the results of the rows processed so far, newest first *)
  Definition at_id (rs : list R) (b : cid) : R :=
    if Nat.ltb b (length rs) then nth (length rs - 1 - b) rs dflt else dflt.
  Fixpoint results (Trev : list cls) : list R :=
    match Trev with
    | [] => []
    | k :: r => let rs := results r in f (at_id rs) (length r) k :: rs
    end.
  Definition tabulate (T : table) (c : cid) : R := at_id (results (rev T)) c.
End Build.

(* ======================================== REF ================================================== *)

(* depth-first, left-to-right pre-order walk of the hierarchy *)
Definition dfs_step (rec : cid -> list cid) (i : cid) (k : cls) : list cid :=
  i :: flat_map rec (bases k).
Definition dfs (T : table) (c : cid) : list cid := tabulate [] dfs_step T c.

Fixpoint memb (x : nat) (l : list nat) : bool :=
  match l with [] => false | y :: r => Nat.eqb x y || memb x r end.
(* remove duplicates keeping the FIRST occurrence *)
Fixpoint dedup_acc (seen l : list nat) : list nat :=
  match l with
  | [] => []
  | x :: r => if memb x seen then dedup_acc seen r else x :: dedup_acc (x :: seen) r
  end.
Definition dedup (l : list nat) : list nat := dedup_acc [] l.
Fixpoint nodupb (l : list nat) : bool :=
  match l with [] => true | x :: r => negb (memb x r) && nodupb r end.

(* the method resolution order on the property's domain (see c3_mro / no_repeated_ancestor) *)
Definition mro (T : table) (c : cid) : list cid := dedup (dfs T c).

(* the property's domain: no class is reached twice from c (an explicitly written `object` counts),
   and an explicitly written `object` is the last class reached (CPython always puts it last) *)
Definition no_repeated_ancestor (T : table) (c : cid) : bool := nodupb (dfs T c).
Definition object_last (T : table) (c : cid) : bool := negb (memb obj (removelast (dfs T c))).
Definition in_domain (T : table) (c : cid) : bool := no_repeated_ancestor T c && object_last T c.
(* bases refer to earlier rows *)
Definition wf_row (i : nat) (k : cls) : bool := forallb (fun b => Nat.ltb b i) (bases k).
Fixpoint wf_from (i : nat) (T : table) : bool :=
  match T with [] => true | k :: r => wf_row i k && wf_from (S i) r end.
Definition wf (T : table) : bool := wf_from 0 T.

(* CPython's order for ANY position of an explicitly written `object` (and for the implicit one):
   `object` is always the last class.  On in_domain tables that mention object it is [mro]. *)
Definition mro_real (T : table) (c : cid) : list cid :=
  filter (fun k => negb (Nat.eqb k obj)) (mro T c) ++ [obj].

(* vars(cls)[x]: the last binding of x executed in the class body *)
Definition own_get (T : table) (k : cid) (x : name) : option site := get x (dict_of (own (row T k))).
Definition defines (T : table) (x : name) (k : cid) : bool := has x (own (row T k)).
Definition self_assigns (T : table) (x : name) (k : cid) : bool := has x (self_assigned (row T k)).
(* sites of the assignments `self.x = ...` among [l], in order *)
Definition sites_of (x : name) (l : list (name * site)) : list site :=
  map snd (filter (fun p => N.eqb x (fst p)) l).

(* type lookup: the first class of the MRO whose body binds x *)
Definition py_class_lookup (T : table) (c : cid) (x : name) : option site :=
  match find (defines T x) (mro T c) with
  | Some k => own_get T k x
  | None => None
  end.

Definition py_class_lookup_real (T : table) (c : cid) (x : name) : option site :=
  match find (defines T x) (mro_real T c) with
  | Some k => own_get T k x
  | None => None
  end.

(* what an attribute table answers: a class-level definition or the assignments of an instance slot *)
Inductive entry := ClsAt (s : site) | InstAt (ss : list site).

(* every `self.x = ...` of every class of the MRO stores into the one slot __dict__['x'] of the
   instance: each of these sites is an acceptable landing site for obj.x *)
Definition py_inst_sites (T : table) (c : cid) (x : name) : list site :=
  flat_map (fun k => sites_of x (self_assigned (row T k))) (mro T c).

(* instance lookup: the instance dict first, then the type.  Among the acceptable assignment sites
   the reference names those of the most derived class (first in the MRO) that assigns x. *)
Definition py_instance_lookup (T : table) (c : cid) (x : name) : option entry :=
  match find (self_assigns T x) (mro T c) with
  | Some k => Some (InstAt (sites_of x (self_assigned (row T k))))
  | None => option_map ClsAt (py_class_lookup T c x)
  end.

(* dir()-like key sets Python finds: class-body names along the MRO / plus instance dict keys *)
Definition py_class_keys (T : table) (c : cid) : list name :=
  flat_map (fun k => keys (own (row T k))) (mro T c).
Definition py_inst_keys (T : table) (c : cid) : list name :=
  flat_map (fun k => keys (own (row T k)) ++ keys (self_assigned (row T k))) (mro T c).

(* ---- C3 linearisation (typeobject.c pmerge), by fuel ------------------------------------------ *)
Definition is_nil (l : list nat) : bool := match l with [] => true | _ => false end.
Definition in_tail (x : nat) (l : list nat) : bool := match l with [] => false | _ :: t => memb x t end.
(* first head that is in no tail *)
Fixpoint c3_pick (cands all : list (list nat)) : option nat :=
  match cands with
  | [] => None
  | [] :: r => c3_pick r all
  | (h :: _) :: r => if existsb (in_tail h) all then c3_pick r all else Some h
  end.
Definition c3_drop (h : nat) (l : list nat) : list nat :=
  match l with x :: t => if Nat.eqb x h then t else l | [] => [] end.
Inductive c3_result := C3Ok (l : list nat) | C3Inconsistent | C3OutOfFuel.
Fixpoint c3_merge (fuel : nat) (ls : list (list nat)) : c3_result :=
  if forallb is_nil ls then C3Ok [] else
  match fuel with
  | 0 => C3OutOfFuel
  | S f =>
      match c3_pick ls ls with
      | None => C3Inconsistent
      | Some h => match c3_merge f (map (c3_drop h) ls) with
                  | C3Ok r => C3Ok (h :: r)
                  | e => e
                  end
      end
  end.
Fixpoint c3_collect (rec : cid -> c3_result) (bs : list cid) : option (list (list nat)) :=
  match bs with
  | [] => Some []
  | b :: r => match rec b, c3_collect rec r with
              | C3Ok l, Some ls => Some (l :: ls)
              | _, _ => None
              end
  end.
(* L[C] = C :: merge (L[B1], ..., L[Bn], [B1; ...; Bn]) *)
Definition c3_step (rec : cid -> c3_result) (i : cid) (k : cls) : c3_result :=
  match c3_collect rec (bases k) with
  | None => C3Inconsistent
  | Some ls => match c3_merge (S (length (concat ls) + length (bases k))) (ls ++ [bases k]) with
               | C3Ok r => C3Ok (i :: r)
               | e => e
               end
  end.
Definition c3_mro (T : table) (c : cid) : c3_result := tabulate C3Inconsistent c3_step T c.

(* ======================================== IMPL ================================================= *)

(* name.py:376-383  ClassObject._attrs:
     attrs = {}; for b in reversed(self.bases): attrs.update(b._attrs); attrs.update(self._cls_attrs)
   _cls_attrs (name.py:365-369) = the names bound in the class body (last binding live). *)
Definition class_attrs_step (rec : cid -> dict site) (i : cid) (k : cls) : dict site :=
  update (fold_left (fun attrs b => update attrs (rec b)) (rev (bases k)) []) (dict_of (own k)).
Definition class_attrs (T : table) (c : cid) : dict site := tabulate [] class_attrs_step T c.

(* scope.py:276-293  SourceScope.assigns: attribute assignments grouped by target object, one
   MultiValue (list of assignment sites, source order) per attribute name *)
Definition group (l : list (name * site)) : dict (list site) :=
  map (fun x => (x, sites_of x l)) (keys l).

(* name.py InstanceValue._instance_attrs (fix F5):
     attrs = {}; for b in reversed(cls.bases): o = b.call(ctx); if o is an InstanceValue:
     attrs.update(o._instance_attrs); attrs.update(assigns.get(self, {}))
   (an instance of a builtin base has no self-assigned attributes in the model: its row has none) *)
Definition inst_assigned_step (rec : cid -> dict (list site)) (i : cid) (k : cls) : dict (list site) :=
  update (fold_left (fun attrs b => update attrs (rec b)) (rev (bases k)) []) (group (self_assigned k)).
Definition inst_assigned (T : table) (c : cid) : dict (list site) := tabulate [] inst_assigned_step T c.

Definition cls_entries (d : dict site) : dict entry := map (fun p => (fst p, ClsAt (snd p))) d.
Definition inst_entries (d : dict (list site)) : dict entry := map (fun p => (fst p, InstAt (snd p))) d.

(* name.py InstanceValue._attrs (fix F5): attrs = cls._attrs.copy(); attrs.update(self._instance_attrs) *)
Definition inst_attrs (T : table) (c : cid) : dict entry :=
  update (cls_entries (class_attrs T c)) (inst_entries (inst_assigned T c)).

(* name.py:415-424 on the pinned tree (defect F5):
     attrs = cls._attrs.copy(); for b in reversed(cls.bases): attrs.update(b.call(ctx)._attrs);
     attrs.update(assigns.get(self, {}))
   the base-INSTANCE tables contain the base CLASS tables and are applied over the subclass's own
   class table.  (Faithful for source rows; the instance of a builtin row is approximated by its
   class table.) *)
Definition asis_step (rec : cid -> dict site * dict entry) (i : cid) (k : cls) : dict site * dict entry :=
  let ca := class_attrs_step (fun b => fst (rec b)) i k in
  (ca, update (fold_left (fun attrs b => update attrs (snd (rec b))) (rev (bases k)) (cls_entries ca))
              (inst_entries (group (self_assigned k)))).
Definition inst_attrs_asis (T : table) (c : cid) : dict entry := snd (tabulate ([], []) asis_step T c).

(* ---- helpers for the correspondence checks (harness) ------------------------------------------ *)
Definition memN (x : N) (l : list N) : bool := existsb (N.eqb x) l.
Definition subsetN (a b : list N) : bool := forallb (fun x => memN x b) a.
Definition seteqN (a b : list N) : bool := subsetN a b && subsetN b a.
Definition mem_site (s : site) (l : list site) : bool := existsb (site_eqb s) l.
Definition seteq_site (a b : list site) : bool :=
  forallb (fun x => mem_site x b) a && forallb (fun x => mem_site x a) b.
Definition opt_site_eqb (a b : option site) : bool :=
  match a, b with Some x, Some y => site_eqb x y | None, None => true | _, _ => false end.
Fixpoint list_nat_eqb (a b : list nat) : bool :=
  match a, b with
  | [], [] => true
  | x :: r, y :: s => Nat.eqb x y && list_nat_eqb r s
  | _, _ => false
  end.
(* an observed landing (list of reported alternative sites) against a table entry *)
Definition entry_matches (e : option entry) (obs : list site) : bool :=
  match e with
  | Some (ClsAt s) => match obs with [o] => site_eqb s o | _ => false end
  | Some (InstAt ss) => negb (match obs with [] => true | _ => false end) && seteq_site ss obs
  | None => match obs with [] => true | _ => false end
  end.

(* ---- witness tables used by Props/C06.v -------------------------------------------------------- *)
(* F5:  class Root: def meth (1,2,8)   /   class Leaf(Root): def meth (1,4,8) *)
Definition f5_table : table :=
  [ mkCls [] [] [];
    mkCls [] [(1, (1, 2, 8))]%N [];
    mkCls [1] [(1, (1, 4, 8))]%N [] ].

(* depth 3, multiple inheritance with the builtin row, overrides, self-assignments in 3 classes *)
Definition ex_table : table :=
  [ mkCls [] [(100, rt_site)]%N [];
    mkCls [] [(1, (1, 2, 8)); (2, (1, 3, 8))]%N [(5, (1, 4, 8))]%N;
    mkCls [1] [(1, (1, 6, 8))]%N [(6, (1, 8, 8)); (6, (1, 9, 8))]%N;
    mkCls [0] [(7, (1, 10, 4))]%N [];
    mkCls [2; 3] [(2, (1, 12, 4))]%N [(5, (1, 13, 8))]%N ].

(* F31: class C: alpha = 1 (1,2,4); def run(self): self.alpha = 2 (1,4,8) *)
Definition f31_table : table :=
  [ mkCls [] [] [];
    mkCls [] [(1, (1, 2, 4))]%N [(1, (1, 4, 8))]%N ].

(* open finding "explicit object not last":
     class Base(object): pass            row 1
     class Mixin: def __init__ (1,5,8)   row 2      (object's vars: name 1 = __init__)
     class C(Base, Mixin): pass          row 3 *)
Definition objfirst_table : table :=
  [ mkCls [] [(1, rt_site)]%N [];
    mkCls [0] [] [];
    mkCls [] [(1, (1, 5, 8))]%N [];
    mkCls [1; 2] [] [] ].
