(* REF side of the inter-scope composition, executable: a chain of nested functions in which every
   function defines the next one somewhere in its body and calls it as its last statement.
   [run_chain] threads CPython's namespaces the way LEGB does: the callee starts with its own
   locals unbound ([enter_r]) and sees every other name as the caller's frame holds it at the time
   of the call.  Definitions only (proofs: Proofs/NestedRunProofs.v); tied to CPython by part D
   of harness/props/c01.py (traces of the instrumented rendering under enumerated decisions). *)
From Coq Require Import List Bool NArith.
Import ListNotations.
From Supp Require Import Model.PyCore Model.Reach Model.ReachX Model.Sem Model.SemX Model.Nested.

Definition enter_r (locals : list name) (outer : renv) : renv :=
  fun x => if mem_name x locals then None else outer x.

(* result: for every level that ran, (enclosing bodies, its body, its trace) *)
Fixpoint run_chain (fuel : nat) (outers rest : list cmd) (p : renv) (ds : list nat)
  : list (list cmd * cmd * trace) :=
  match rest with
  | [] => []
  | c :: rest' =>
      match runX fuel c (enter_r (binds c) p) ds with
      | DoneX p' tr o ds' =>
          (outers, c, tr) ::
          match o with
          | XN => run_chain fuel (outers ++ [c]) rest' p' ds'     (* the call of the next level *)
          | _ => []                                               (* return / exception: no call *)
          end
      | _ => []
      end
  end.

Definition chain_trace (l : list (list cmd * cmd * trace)) : trace := concat (map snd l).

Definition level_visible (e : list cmd * cmd * trace) : bool :=
  match e with
  | (os, c, tr) => forallb (fun ev => match snd ev with
                                      | Some _ => visible_nested os c (fst ev) && negb (e02_nested os c (fst ev))
                                      | None => true end) tr
  end.
