(* IMPL for C01-C03: supp's flow-sensitive analysis (nast.py + scope.py), structurally.
   [an c s]  = environment in the flow a command ends in, given the environment s it starts in;
   [seen c s r] = the alternatives the read site r is told (names_at of its flow at its position).

   nast.py visit_If / visit_For / visit_While / visit_TryExcept build the flows; scope.py
   Flow.parent_names joins several parents row by row (an absent name contributes UndefinedName)
   and LoopFlow resolves the back edge by one extra pass. *)
From Coq Require Import List Bool Arith NArith.
Import ListNotations.
From Supp Require Import Model.PyCore.

Fixpoint an (c : cmd) (s : aenv) : aenv :=
  match c with
  | Skip | Read _ _ | Exit _ => s                 (* supp ignores early exits *)
  | Seq a b => an b (an a s)
  | Bind d x => upd s x [Some d]
  | Branch a b => join (an a s) (an b s)          (* join flow, parents [body, orelse] *)
  | While t b e =>
      (* test_start: parents [cur, Loop(body_end)]; the loop's names are those of the body end
         computed with the back edge skipped: B1 *)
      let B1 := an b (an t s) in
      let H := join s B1 in
      an e (an t H)                               (* while-else: parents [test] *)
  | For tg b e =>
      let B1 := an b (an tg s) in
      let H := join s B1 in                       (* body_start: parents [cur, Loop(body_end)] *)
      let B2 := an b (an tg H) in
      an e (join s B2)                            (* for-else: parents [cur, body_end] *)
  | Try _ b _ hs e f =>
      let sb := an b s in
      let hin := join s sb in                     (* except flow: parents [cur, body_end] *)
      an f (an_h hs hin (an e sb))                (* join flow: parents [orelse] + handlers *)
  end
with an_h (hs : hlist) (hin : aenv) (acc : aenv) : aenv :=
  match hs with
  | HNil => acc
  | HCons ty nm hb r => an_h r hin (join acc (an hb (bind_opt_a nm (an ty hin))))
  end.

Definition eqb_site := N.eqb.

Fixpoint seen (c : cmd) (s : aenv) (r : site) : list alt :=
  match c with
  | Skip | Bind _ _ | Exit _ => []
  | Read r' x => if N.eqb r r' then s x else []
  | Seq a b => seen a s r ++ seen b (an a s) r
  | Branch a b => seen a s r ++ seen b s r
  | While t b e =>
      let B1 := an b (an t s) in
      let H := join s B1 in
      seen t H r ++ seen b (an t H) r ++ seen e (an t H) r
  | For tg b e =>
      let B1 := an b (an tg s) in
      let H := join s B1 in
      let B2 := an b (an tg H) in
      seen tg H r ++ seen b (an tg H) r ++ seen e (join s B2) r
  | Try _ b _ hs e f =>
      let sb := an b s in
      let hin := join s sb in
      seen b s r ++ seen_h hs hin r ++ seen e sb r ++ seen f (an_h hs hin (an e sb)) r
  end
with seen_h (hs : hlist) (hin : aenv) (r : site) : list alt :=
  match hs with
  | HNil => []
  | HCons ty nm hb rest =>
      seen ty hin r ++ seen hb (bind_opt_a nm (an ty hin)) r ++ seen_h rest hin r
  end.

(* ---- what lint / assist / location derive from it --------------------------------------- *)

(* all (read site, name) pairs of a command, in source order *)
Fixpoint reads (c : cmd) : list (site * name) :=
  match c with
  | Skip | Bind _ _ | Exit _ => []
  | Read r x => [(r, x)]
  | Seq a b | Branch a b => reads a ++ reads b
  | While t b e | For t b e => reads t ++ reads b ++ reads e
  | Try _ b _ hs e f => reads b ++ reads_h hs ++ reads e ++ reads f
  end
with reads_h (hs : hlist) : list (site * name) :=
  match hs with
  | HNil => []
  | HCons ty _ hb r => reads ty ++ reads hb ++ reads_h r
  end.

Fixpoint bind_sites (c : cmd) : list site :=
  match c with
  | Skip | Read _ _ | Exit _ => []
  | Bind d _ => [d]
  | Seq a b | Branch a b => bind_sites a ++ bind_sites b
  | While t b e | For t b e => bind_sites t ++ bind_sites b ++ bind_sites e
  | Try _ b _ hs e f => bind_sites b ++ bind_sites_h hs ++ bind_sites e ++ bind_sites f
  end
with bind_sites_h (hs : hlist) : list site :=
  match hs with
  | HNil => []
  | HCons ty nm hb r =>
      bind_sites ty ++ (match nm with Some (d, _) => [d] | None => [] end) ++ bind_sites hb ++ bind_sites_h r
  end.

Definition is_def (a : alt) : bool := match a with Some _ => true | None => false end.

(* linter.py: E02 'Undefined name' at r iff the name is absent from names_at, i.e. no alternative
   is a definition *)
Definition e02 (c : cmd) (s : aenv) (r : site) : bool := negb (existsb is_def (seen c s r)).

Definition alt_eqb (a b : alt) : bool :=
  match a, b with
  | Some x, Some y => N.eqb x y
  | None, None => true
  | _, _ => false
  end.

(* linter.py use_name: a binding is marked used iff it is an alternative of some read's row *)
Definition used (c : cmd) (s : aenv) (d : site) : bool :=
  existsb (fun rx => existsb (alt_eqb (Some d)) (seen c s (fst rx))) (reads c).

Definition unused_sites (c : cmd) (s : aenv) : list site :=
  filter (fun d => negb (used c s d)) (bind_sites c).

(* name completion at r: the identifier is offered iff it is a key of names_at *)
Definition visible (c : cmd) (s : aenv) (r : site) : bool := existsb is_def (seen c s r).
