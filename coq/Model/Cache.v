(* Model of supp's cross-request caches (definitions only; proofs in Proofs/CacheProofs.v).

   Project._module_cache / _context_cache / check_changes / get_module   supp/project.py:71-135
   SourceModule.mtime / changed / scope (cached_property)                supp/module.py:15-43
   extract_scope + resolve_star_imports (star names materialised)        supp/nast.py:25-30, supp/scope.py:295-307
   ImportedName.resolve (memo _ref, submodule first, then attribute)     supp/name.py:173-217
   EvalCtx.evaluate / declarations through imported names                supp/evaluator.py:57-65, 99-141
   assist / location / lint entry points (main file given as text)       supp/assistant.py, supp/linter.py
   server: every request runs inside check_changes                       supp/server.py:51-62

   A module is abstracted to a list of bindings, one per line:
     BDef n attrs    class n with class-level attribute names attrs
     BImport n m     import m as n
     BFrom n m x     from m import x as n
     BStar m         from m import *
   Module names are dotted paths (list of name codes); relative imports are normalised by the
   harness.  Python object identity of module objects is a generation number [gen]; the caches hanging
   off Python objects (module.__dict__['scope'], ImportedName._ref) are association tables keyed by
   generation, so that a reference kept by a cached scope to a module object that is no longer in
   _module_cache (a stale generation) is representable - that is defect F23. *)
From Coq Require Import List Bool Arith NArith.
Import ListNotations.

Definition name := N.
Definition modname := list N.
Definition mtime := N.
Definition gen := nat.

Inductive binding : Type :=
| BDef (n : name) (attrs : list name)
| BImport (n : name) (m : modname)
| BFrom (n : name) (m : modname) (x : name)
| BStar (m : modname).

Definition content := list binding.
Definition disk := list (modname * (mtime * content)).

Fixpoint mod_eqb (a b : modname) : bool :=
  match a, b with
  | [], [] => true
  | x :: a', y :: b' => N.eqb x y && mod_eqb a' b'
  | _, _ => false
  end.

Definition key2_eqb (a b : gen * nat) : bool := Nat.eqb (fst a) (fst b) && Nat.eqb (snd a) (snd b).

Section Assoc.
  Context {K V : Type} (eqb : K -> K -> bool).
  Fixpoint alookup (l : list (K * V)) (k : K) : option V :=
    match l with
    | [] => None
    | (k', v) :: r => if eqb k' k then Some v else alookup r k
    end.
  Fixpoint aremove (l : list (K * V)) (k : K) : list (K * V) :=
    match l with
    | [] => []
    | (k', v) :: r => if eqb k' k then aremove r k else (k', v) :: aremove r k
    end.
End Assoc.

Definition dlookup (d : disk) (m : modname) : option (mtime * content) := alookup mod_eqb d m.
Definition memN (x : N) (l : list N) : bool := existsb (N.eqb x) l.
Definition mem_mod (m : modname) (l : list modname) : bool := existsb (mod_eqb m) l.

Fixpoint dedupN (l : list N) : list N :=
  match l with
  | [] => []
  | x :: r => if memN x r then dedupN r else x :: dedupN r
  end.

(* ---- analysed scope of a module: one entry per bound name, in source order ------------------- *)

Inductive ekind : Type :=
| KDef (attrs : list name)                 (* ClassScope *)
| KImp (m : modname) (x : option name).    (* ImportedName(module=m, mname=x) *)

Record entry := mkE { e_name : name; e_line : nat; e_kind : ekind }.

Definition plain_entry (b : binding) (ln : nat) : entry :=
  match b with
  | BDef n a => mkE n ln (KDef a)
  | BImport n m => mkE n ln (KImp m None)
  | BFrom n m x => mkE n ln (KImp m (Some x))
  | BStar m => mkE 0%N ln (KImp m None)   (* not used: stars are expanded *)
  end.

Definition names_of (es : list entry) : list name := map e_name es.

(* names that start with an underscore (the harness renders the codes from 100 on as `_n<k>`, also as
   components of module names: `pkg/_n105.py`) *)
Definition is_private (x : name) : bool := N.leb 100 x.

(* scope.py:303-305: one ImportedName(name, loc, declared_at, mname, name, is_star) per exported name
   that does not start with an underscore *)
Definition star_entries (m : modname) (ln : nat) (es' : list entry) : list entry :=
  map (fun x => mkE x ln (KImp m (Some x)))
      (filter (fun x => negb (is_private x)) (dedupN (names_of es'))).

(* Flow.names: {n.name: n for n in _names} - the last binding of a name wins *)
Fixpoint find_last_from (x : name) (es : list entry) (i : nat) (acc : option nat) : option nat :=
  match es with
  | [] => acc
  | e :: r => find_last_from x r (S i) (if N.eqb (e_name e) x then Some i else acc)
  end.
Definition find_last (x : name) (es : list entry) : option nat := find_last_from x es 0 None.

Definition first_line : nat := 2.   (* line 1 of every generated file is a header comment *)
Definition module_line : nat := 1.  (* SourceModule.declared_at = (1, 0) *)

(* ---- requests and answers ---------------------------------------------------------------------- *)

Inductive query : Type :=
| QNames                                   (* name completion at the end of the main file *)
| QLint (uses : list name)                 (* lint: which of the used names are undefined (E02) *)
| QAttrs (x : name) (y : option name)      (* x.| or x.y.| *)
| QLoc (x : name).                         (* go to definition of x *)

Inductive req : Type :=
| ReqMain (c : content) (q : query)        (* the main file is given as text: never cached *)
| ReqFromImport (m : modname)              (* "from m import |" *)
| ReqLocImport (c : content) (m : modname). (* go to definition on "import m|" below the text c: raises
                                              ImportError when m cannot be found - after the star
                                              imports of c have been resolved (assistant.py:65-91) *)

Inductive ans : Type :=
| ANames (l : list name)
| ALoc (l : list (modname * nat))
| AImportError.

Inductive res (A : Type) : Type := Ok (a : A) | OOF | Err.
Arguments Ok {A} a. Arguments OOF {A}. Arguments Err {A}.

(* list_packages: modules found by listing the directory of package m *)
Fixpoint strip_prefix (p m : modname) : option modname :=
  match p, m with
  | [], r => Some r
  | x :: p', y :: m' => if N.eqb x y then strip_prefix p' m' else None
  | _ :: _, [] => None
  end.
Definition children (d : disk) (m : modname) : list name :=
  flat_map (fun kv => match strip_prefix m (fst kv) with Some [x] => [x] | _ => [] end) d.

(* =================================================================================================
   REF side: what the analysis yields as a pure function of what is known about the disk.
   [know] is a partial view: k_ex m = Some true/false: a lookup of m succeeds/fails; k_ct m: its text.
   A brand-new project is this evaluation on the full knowledge of the disk (know_disk).
   ================================================================================================= *)

Record know := mkK { k_ex : modname -> option bool; k_ct : modname -> option content }.

Definition know_disk (d : disk) : know :=
  mkK (fun m => Some (match dlookup d m with Some _ => true | None => false end))
      (fun m => option_map snd (dlookup d m)).

Fixpoint pexpand (K : know) (rec : modname -> option (list entry)) (c : content) (ln : nat)
  : option (list entry) :=
  match c with
  | [] => Some []
  | BStar m' :: c' =>
      match k_ex K m' with
      | None => None
      | Some false => pexpand K rec c' (S ln)
      | Some true =>
          match rec m' with
          | None => None
          | Some es' =>
              match pexpand K rec c' (S ln) with
              | None => None
              | Some es => Some (star_entries m' ln es' ++ es)
              end
          end
      end
  | b :: c' =>
      match pexpand K rec c' (S ln) with
      | None => None
      | Some es => Some (plain_entry b ln :: es)
      end
  end.

Fixpoint pscope (K : know) (f : nat) (m : modname) : option (list entry) :=
  match f with
  | 0 => None
  | S f' => match k_ct K m with
            | None => None
            | Some c => pexpand K (pscope K f') c first_line
            end
  end.

Inductive pref : Type := PNone | PMod (m : modname) | PName (m : modname) (i : nat).
Inductive pval : Type := VNone | VMod (m : modname) | VClass (attrs : list name).

Definition presolve (K : know) (f : nat) (k : ekind) : option pref :=
  match k with
  | KDef _ => Some PNone
  | KImp m None =>
      match k_ex K m with
      | None => None
      | Some true => Some (PMod m)
      | Some false => Some PNone
      end
  | KImp m (Some x) =>
      match k_ex K (m ++ [x]) with
      | None => None
      | Some true => Some (PMod (m ++ [x]))
      | Some false =>
          match k_ex K m with
          | None => None
          | Some false => Some PNone
          | Some true =>
              match pscope K f m with
              | None => None
              | Some es => Some (match find_last x es with Some i => PName m i | None => PNone end)
              end
          end
      end
  end.

Definition trail := list (modname * nat).

Fixpoint pchase (K : know) (f : nat) (r : pref) (tr : trail) : option (pval * trail) :=
  match f with
  | 0 => None
  | S f' =>
      match r with
      | PNone => Some (VNone, tr)
      | PMod m => Some (VMod m, tr ++ [(m, module_line)])
      | PName m i =>
          match pscope K f' m with
          | None => None
          | Some es =>
              match nth_error es i with
              | None => None
              | Some e =>
                  match e_kind e with
                  | KDef a => Some (VClass a, tr ++ [(m, e_line e)])
                  | KImp m' x =>
                      match presolve K f' (KImp m' x) with
                      | None => None
                      | Some r' => pchase K f' r' (tr ++ [(m, e_line e)])
                      end
                  end
              end
          end
      end
  end.

Definition pattrs (K : know) (f : nat) (v : pval) : option (list name) :=
  match v with
  | VNone => Some []
  | VClass a => Some a
  | VMod m => option_map names_of (pscope K f m)
  end.

(* value of an entry of the main file *)
Definition pentry_value (K : know) (f : nat) (e : entry) : option (pval * trail) :=
  match e_kind e with
  | KDef a => Some (VClass a, [])
  | KImp m x => match presolve K f (KImp m x) with
                | None => None
                | Some r => pchase K f r []
                end
  end.

Definition pquery (K : know) (f : nat) (es : list entry) (q : query) : option ans :=
  match q with
  | QNames => Some (ANames (names_of es))
  | QLint uses => Some (ANames (filter (fun u => negb (memN u (names_of es))) uses))
  | QLoc x =>
      match find_last x es with
      | None => Some (ALoc [])
      | Some i =>
          match nth_error es i with
          | None => None
          | Some e => option_map (fun vt => ALoc (snd vt)) (pentry_value K f e)
          end
      end
  | QAttrs x y =>
      match find_last x es with
      | None => Some (ANames [])
      | Some i =>
          match nth_error es i with
          | None => None
          | Some e =>
              match pentry_value K f e with
              | None => None
              | Some (v, _) =>
                  match y with
                  | None => option_map ANames (pattrs K f v)
                  | Some y' =>
                      match v with
                      | VMod m =>
                          match pscope K f m with
                          | None => None
                          | Some es' =>
                              match find_last y' es' with
                              | None => Some (ANames [])
                              | Some j =>
                                  match pchase K f (PName m j) [] with
                                  | None => None
                                  | Some (v', _) => option_map ANames (pattrs K f v')
                                  end
                              end
                          end
                      | _ => Some (ANames [])
                      end
                  end
              end
          end
      end
  end.

Definition panswer (K : know) (d : disk) (f : nat) (rq : req) : option ans :=
  match rq with
  | ReqMain c q =>
      match pexpand K (pscope K f) c first_line with
      | None => None
      | Some es => pquery K f es q
      end
  | ReqFromImport m =>
      match k_ex K m with
      | None => None
      | Some false => Some AImportError
      | Some true => option_map (fun es => ANames (names_of es ++ children d m)) (pscope K f m)
      end
  | ReqLocImport c m =>
      match pexpand K (pscope K f) c first_line with
      | None => None
      | Some _ =>
          match k_ex K m with
          | None => None
          | Some false => Some AImportError
          | Some true => Some (ALoc [(m, module_line)])
          end
      end
  end.

(* =================================================================================================
   IMPL side: the long-lived project.
   ================================================================================================= *)

Inductive ref : Type := RNone | RMod (g : gen) | RName (g : gen) (i : nat).
Inductive ival : Type := IVNone | IVMod (g : gen) | IVClass (attrs : list name).

Record state := mkS {
  next : gen;                                       (* next unused object identity *)
  objs : list (gen * (modname * mtime));            (* SourceModule(name, filename).mtime *)
  scopes : list (gen * (content * list entry));     (* module.__dict__['scope'] (cached_property) *)
  refs : list ((gen * nat) * ref);                  (* ImportedName._ref of entry i of that scope *)
  mcache : list (modname * gen);                    (* Project._module_cache *)
  ccache : list (modname * gen);                    (* Project._context_cache *)
  failed : list modname                             (* Project._failed_imports (fix F23) *)
}.

Definition empty_state : state := mkS 0 [] [] [] [] [] [].

(* invalidation policy: as pinned (project.py:71-75 before the fix) or repaired (fix F23) *)
Inductive policy := AsIs | Repaired.

(* module.py:28-32 SourceModule.changed (a vanished file counts as changed) *)
Definition changed (d : disk) (o : modname * mtime) : bool :=
  match dlookup d (fst o) with
  | Some (t, _) => negb (N.eqb t (snd o))
  | None => true
  end.

Definition gen_changed (d : disk) (st : state) (g : gen) : bool :=
  match alookup Nat.eqb (objs st) g with
  | Some o => changed d o
  | None => true
  end.

(* project.py check_changes *)
Definition check_changes (p : policy) (d : disk) (st : state) : state :=
  match p with
  | AsIs => mkS (next st) (objs st) (scopes st) (refs st) (mcache st) [] (failed st)
  | Repaired =>
      if existsb (fun kv => gen_changed d st (snd kv)) (mcache st)
         || existsb (fun m => match dlookup d m with Some _ => true | None => false end) (failed st)
      then mkS (next st) (objs st) (scopes st) (refs st) [] [] []
      else mkS (next st) (objs st) (scopes st) (refs st) (mcache st) [] (failed st)
  end.

(* project.py:98-135: search the path; a source module becomes a new object, a failed lookup is
   recorded (fix F23) and raises ImportError (None). [mc] is _module_cache without a stale entry. *)
Definition load_module (d : disk) (st : state) (mc : list (modname * gen)) (m : modname)
  : state * option gen :=
  match dlookup d m with
  | Some (t, _) =>
      let g := next st in
      (mkS (S g) ((g, (m, t)) :: objs st) (scopes st) (refs st) ((m, g) :: mc) (ccache st) (failed st),
       Some g)
  | None =>
      (mkS (next st) (objs st) (scopes st) (refs st) mc (ccache st) (m :: failed st), None)
  end.

(* project.py get_module: None = ImportError *)
Definition get_module (d : disk) (st : state) (m : modname) : state * option gen :=
  match alookup mod_eqb (ccache st) m with
  | Some g => (st, Some g)
  | None =>
      match alookup mod_eqb (mcache st) m with
      | Some g =>
          if gen_changed d st g
          then load_module d st (aremove mod_eqb (mcache st) m) m     (* del self._module_cache[name] *)
          else (mkS (next st) (objs st) (scopes st) (refs st) (mcache st)
                    ((m, g) :: ccache st) (failed st), Some g)
      | None => load_module d st (mcache st) m
      end
  end.

Definition add_scope (st : state) (g : gen) (v : content * list entry) : state :=
  mkS (next st) (objs st) ((g, v) :: scopes st) (refs st) (mcache st) (ccache st) (failed st).
Definition add_ref (st : state) (g : gen) (i : nat) (r : ref) : state :=
  mkS (next st) (objs st) (scopes st) (((g, i), r) :: refs st) (mcache st) (ccache st) (failed st).

(* nast.py extract_scope: plain bindings, then scope.py resolve_star_imports in statement order *)
Fixpoint expand (d : disk) (rec : state -> gen -> state * res (list entry))
         (st : state) (c : content) (ln : nat) : state * res (list entry) :=
  match c with
  | [] => (st, Ok [])
  | BStar m' :: c' =>
      let '(st1, og) := get_module d st m' in
      match og with
      | None => expand d rec st1 c' (S ln)
      | Some g' =>
          let '(st2, r) := rec st1 g' in
          match r with
          | Ok es' =>
              let '(st3, r3) := expand d rec st2 c' (S ln) in
              match r3 with
              | Ok es => (st3, Ok (star_entries m' ln es' ++ es))
              | OOF => (st3, OOF)
              | Err => (st3, Err)
              end
          | OOF => (st2, OOF)
          | Err => (st2, Err)
          end
      end
  | b :: c' =>
      let '(st1, r) := expand d rec st c' (S ln) in
      match r with
      | Ok es => (st1, Ok (plain_entry b ln :: es))
      | OOF => (st1, OOF)
      | Err => (st1, Err)
      end
  end.

(* module.py SourceModule.scope: cached on the module object, built from the file as it is now *)
Fixpoint scope_of (f : nat) (d : disk) (st : state) (g : gen) {struct f} : state * res (list entry) :=
  match f with
  | 0 => (st, OOF)
  | S f' =>
      match alookup Nat.eqb (scopes st) g with
      | Some (_, es) => (st, Ok es)
      | None =>
          match alookup Nat.eqb (objs st) g with
          | None => (st, Err)
          | Some (m, _) =>
              match dlookup d m with
              | None => (st, Err)
              | Some (_, c) =>
                  let '(st1, r) := expand d (scope_of f' d) st c first_line in
                  match r with
                  | Ok es =>
                      (* a re-entrant build of the same scope (star-import cycle) never returns:
                         RecursionError in the code, OOF here; the test keeps the table functional *)
                      match alookup Nat.eqb (scopes st1) g with
                      | Some (_, es1) => (st1, Ok es1)
                      | None => (add_scope st1 g (c, es), Ok es)
                      end
                  | OOF => (st1, OOF)
                  | Err => (st1, Err)
                  end
              end
          end
      end
  end.

(* name.py ImportedName.resolve without the memo *)
Definition resolve_kind (f : nat) (d : disk) (st : state) (k : ekind) : state * res ref :=
  match k with
  | KDef _ => (st, Ok RNone)
  | KImp m None =>
      let '(st1, og) := get_module d st m in
      (st1, Ok (match og with Some g => RMod g | None => RNone end))
  | KImp m (Some x) =>
      let '(st1, og) := get_module d st (m ++ [x]) in
      match og with
      | Some g => (st1, Ok (RMod g))
      | None =>
          let '(st2, og2) := get_module d st1 m in
          match og2 with
          | None => (st2, Ok RNone)
          | Some g =>
              let '(st3, r) := scope_of f d st2 g in
              match r with
              | Ok es => (st3, Ok (match find_last x es with Some i => RName g i | None => RNone end))
              | OOF => (st3, OOF)
              | Err => (st3, Err)
              end
          end
      end
  end.

(* ImportedName.resolve with the memo `_ref` on the name object (g, i) of a cached scope *)
Definition resolve_at (f : nat) (d : disk) (st : state) (g : gen) (i : nat) (k : ekind)
  : state * res ref :=
  match alookup key2_eqb (refs st) (g, i) with
  | Some r => (st, Ok r)
  | None =>
      let '(st1, r) := resolve_kind f d st k in
      match r with
      | Ok rr => (add_ref st1 g i rr, Ok rr)
      | OOF => (st1, OOF)
      | Err => (st1, Err)
      end
  end.

(* evaluator.py: evaluate / declarations following imported names through cached scopes *)
Fixpoint chase (f : nat) (d : disk) (st : state) (r : ref) (tr : trail) : state * res (ival * trail) :=
  match f with
  | 0 => (st, OOF)
  | S f' =>
      match r with
      | RNone => (st, Ok (IVNone, tr))
      | RMod g =>
          match alookup Nat.eqb (objs st) g with
          | None => (st, Err)
          | Some (m, _) => (st, Ok (IVMod g, tr ++ [(m, module_line)]))
          end
      | RName g i =>
          match alookup Nat.eqb (objs st) g, alookup Nat.eqb (scopes st) g with
          | Some (m, _), Some (_, es) =>
              match nth_error es i with
              | None => (st, Err)
              | Some e =>
                  match e_kind e with
                  | KDef a => (st, Ok (IVClass a, tr ++ [(m, e_line e)]))
                  | KImp m' x =>
                      let '(st1, rr) := resolve_at f' d st g i (KImp m' x) in
                      match rr with
                      | Ok r' => chase f' d st1 r' (tr ++ [(m, e_line e)])
                      | OOF => (st1, OOF)
                      | Err => (st1, Err)
                      end
                  end
              end
          | _, _ => (st, Err)
          end
      end
  end.

Definition attrs_of (f : nat) (d : disk) (st : state) (v : ival) : state * res (list name) :=
  match v with
  | IVNone => (st, Ok [])
  | IVClass a => (st, Ok a)
  | IVMod g =>
      let '(st1, r) := scope_of f d st g in
      match r with
      | Ok es => (st1, Ok (names_of es))
      | OOF => (st1, OOF)
      | Err => (st1, Err)
      end
  end.

(* entries of the main file are fresh objects in every request: no memo survives *)
Definition entry_value (f : nat) (d : disk) (st : state) (e : entry) : state * res (ival * trail) :=
  match e_kind e with
  | KDef a => (st, Ok (IVClass a, []))
  | KImp m x =>
      let '(st1, r) := resolve_kind f d st (KImp m x) in
      match r with
      | Ok rr => chase f d st1 rr []
      | OOF => (st1, OOF)
      | Err => (st1, Err)
      end
  end.

Definition lift_names (x : state * res (list name)) : state * res ans :=
  match snd x with
  | Ok l => (fst x, Ok (ANames l))
  | OOF => (fst x, OOF)
  | Err => (fst x, Err)
  end.

Definition query_impl (f : nat) (d : disk) (st : state) (es : list entry) (q : query) : state * res ans :=
  match q with
  | QNames => (st, Ok (ANames (names_of es)))
  | QLint uses => (st, Ok (ANames (filter (fun u => negb (memN u (names_of es))) uses)))
  | QLoc x =>
      match find_last x es with
      | None => (st, Ok (ALoc []))
      | Some i =>
          match nth_error es i with
          | None => (st, Err)
          | Some e =>
              let '(st1, r) := entry_value f d st e in
              match r with
              | Ok (_, tr) => (st1, Ok (ALoc tr))
              | OOF => (st1, OOF)
              | Err => (st1, Err)
              end
          end
      end
  | QAttrs x y =>
      match find_last x es with
      | None => (st, Ok (ANames []))
      | Some i =>
          match nth_error es i with
          | None => (st, Err)
          | Some e =>
              let '(st1, r) := entry_value f d st e in
              match r with
              | Ok (v, _) =>
                  match y with
                  | None => lift_names (attrs_of f d st1 v)
                  | Some y' =>
                      match v with
                      | IVMod g =>
                          let '(st2, r2) := scope_of f d st1 g in
                          match r2 with
                          | Ok es' =>
                              match find_last y' es' with
                              | None => (st2, Ok (ANames []))
                              | Some j =>
                                  let '(st3, r3) := chase f d st2 (RName g j) [] in
                                  match r3 with
                                  | Ok (v', _) => lift_names (attrs_of f d st3 v')
                                  | OOF => (st3, OOF)
                                  | Err => (st3, Err)
                                  end
                              end
                          | OOF => (st2, OOF)
                          | Err => (st2, Err)
                          end
                      | _ => (st1, Ok (ANames []))
                      end
                  end
              | OOF => (st1, OOF)
              | Err => (st1, Err)
              end
          end
      end
  end.

(* the body of a request, after check_changes *)
Definition serve (f : nat) (d : disk) (st : state) (rq : req) : state * res ans :=
  match rq with
  | ReqMain c q =>
      let '(st1, r) := expand d (scope_of f d) st c first_line in
      match r with
      | Ok es => query_impl f d st1 es q
      | OOF => (st1, OOF)
      | Err => (st1, Err)
      end
  | ReqFromImport m =>
      let '(st1, og) := get_module d st m in
      match og with
      | None => (st1, Ok AImportError)
      | Some g =>
          let '(st2, r) := scope_of f d st1 g in
          match r with
          | Ok es => (st2, Ok (ANames (names_of es ++ children d m)))
          | OOF => (st2, OOF)
          | Err => (st2, Err)
          end
      end
  | ReqLocImport c m =>
      let '(st1, r) := expand d (scope_of f d) st c first_line in
      match r with
      | Ok _ =>
          let '(st2, og) := get_module d st1 m in
          (st2, Ok (match og with Some _ => ALoc [(m, module_line)] | None => AImportError end))
      | OOF => (st1, OOF)
      | Err => (st1, Err)
      end
  end.

(* server.py:51-62: with self.project.check_changes(): ... *)
Definition request (p : policy) (f : nat) (d : disk) (st : state) (rq : req) : state * res ans :=
  serve f d (check_changes p d st) rq.

(* REF: a brand-new Project(sources) on the same disk *)
Definition fresh (f : nat) (d : disk) (rq : req) : res ans := snd (request Repaired f d empty_state rq).

(* REF proper: a pure, cache-free, fuel-bounded function of the disk *)
Definition ref_answer (f : nat) (d : disk) (rq : req) : option ans := panswer (know_disk d) d f rq.

(* acyclic projects: every import edge between modules on disk goes to a module of smaller rank *)
Definition targets_of (b : binding) : list modname :=
  match b with
  | BDef _ _ => []
  | BImport _ m => [m]
  | BFrom _ m _ => [m]
  | BStar m => [m]
  end.
Definition on_disk (d : disk) (m : modname) : bool :=
  match dlookup d m with Some _ => true | None => false end.
Definition ranked (d : disk) (rk : modname -> nat) : Prop :=
  forall m t c b m', dlookup d m = Some (t, c) -> In b c -> In m' (targets_of b) ->
                     on_disk d m' = true -> rk m' < rk m.
Definition rank_bound (d : disk) (rk : modname -> nat) (R : nat) : Prop :=
  forall m, on_disk d m = true -> rk m < R.

(* ---- histories ----------------------------------------------------------------------------------- *)

Inductive op : Type :=
| Write (m : modname) (c : content)   (* create-module / rewrite-module: new text, new mtime *)
| Touch (m : modname)                 (* new mtime, same text *)
| Request (rq : req).

Record world := mkW { w_disk : disk; w_clock : mtime; w_state : state }.

Definition set_file (d : disk) (m : modname) (v : mtime * content) : disk :=
  (m, v) :: aremove mod_eqb d m.

(* one observation per request: the disk it ran on, the request, the answer *)
Definition obs := (disk * req * res ans)%type.

Definition step (p : policy) (f : nat) (w : world) (o : op) : world * list obs :=
  match o with
  | Write m c =>
      let t := N.succ (w_clock w) in
      (mkW (set_file (w_disk w) m (t, c)) t (w_state w), [])
  | Touch m =>
      match dlookup (w_disk w) m with
      | None => (w, [])
      | Some (_, c) =>
          let t := N.succ (w_clock w) in
          (mkW (set_file (w_disk w) m (t, c)) t (w_state w), [])
      end
  | Request rq =>
      let '(st', a) := request p f (w_disk w) (w_state w) rq in
      (mkW (w_disk w) (w_clock w) st', [(w_disk w, rq, a)])
  end.

Fixpoint run (p : policy) (f : nat) (w : world) (ops : list op) : world * list obs :=
  match ops with
  | [] => (w, [])
  | o :: r =>
      let '(w1, o1) := step p f w o in
      let '(w2, o2) := run p f w1 r in
      (w2, o1 ++ o2)
  end.

Definition init_world : world := mkW [] 0%N empty_state.

(* ---- helpers for the correspondence ------------------------------------------------------------------ *)

Definition subsetN (a b : list N) : bool := forallb (fun x => memN x b) a.
Definition same_setN (a b : list N) : bool := subsetN a b && subsetN b a.

Definition loc_eqb (a b : modname * nat) : bool := mod_eqb (fst a) (fst b) && Nat.eqb (snd a) (snd b).
Fixpoint list_eqb {A} (eqb : A -> A -> bool) (a b : list A) : bool :=
  match a, b with
  | [], [] => true
  | x :: a', y :: b' => eqb x y && list_eqb eqb a' b'
  | _, _ => false
  end.

(* observed answers are compared up to the order of proposals *)
Definition ans_matches (model : res ans) (observed : ans) : bool :=
  match model, observed with
  | Ok (ANames a), ANames b => same_setN a b
  | Ok (ALoc a), ALoc b => list_eqb loc_eqb a b
  | Ok AImportError, AImportError => true
  | _, _ => false
  end.

Definition answers (p : policy) (f : nat) (ops : list op) : list (res ans) :=
  map snd (snd (run p f init_world ops)).

Definition fresh_answers (f : nat) (ops : list op) : list (res ans) :=
  map (fun o => match o with (d, rq, _) => fresh f d rq end) (snd (run Repaired f init_world ops)).

Definition ref_answers (f : nat) (ops : list op) : list (res ans) :=
  map (fun o => match o with (d, rq, _) =>
                  match ref_answer f d rq with Some a => Ok a | None => OOF end end)
      (snd (run Repaired 0 init_world ops)).

Fixpoint all_match (ms : list (res ans)) (os : list ans) : bool :=
  match ms, os with
  | [], [] => true
  | m :: ms', o :: os' => ans_matches m o && all_match ms' os'
  | _, _ => false
  end.
