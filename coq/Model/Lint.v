(* Model of the unused-name diagnostics of supp (definitions only; proofs in Proofs/LintProofs.v).

   report / report_loop   supp/linter.py:72-97   the loop over scope.all_names with the exemption chain
   usage / step           supp/linter.py:40-70   the usage loop (use_name, qualified_imports, locals())
   in_all_names           supp/scope.py:73-80    Flow.add_name: a name declared global in its scope goes
                                                 to SourceScope._global_names, not to a flow, hence it
                                                 is not enumerated by SourceScope.all_names (scope.py:228-233)
   rule                   the rule of property C10, written from the property text (REF)

   Identifiers are lists of code points (N).  The only string predicates the code uses are
   startswith('_'), equality with '__future__' and membership in the qualified-imports set. *)
From Coq Require Import List Bool Arith NArith.
Import ListNotations.

Definition name := list N.

Fixpoint name_eqb (a b : name) : bool :=
  match a, b with
  | [], [] => true
  | x :: a', y :: b' => N.eqb x y && name_eqb a' b'
  | _, _ => false
  end.

Definition mem_name (n : name) (s : list name) : bool := existsb (name_eqb n) s.

(* name.startswith('_') *)
Definition starts_underscore (n : name) : bool :=
  match n with c :: _ => N.eqb c 95 | [] => false end.

(* '__future__' *)
Definition future_name : name := [95; 95; 102; 117; 116; 117; 114; 101; 95; 95]%N.
(* 'locals' *)
Definition locals_name : name := [108; 111; 99; 97; 108; 115]%N.

(* ---- binding records --------------------------------------------------------------------- *)

(* what syntactic construct made the binding *)
Inductive kind :=
| KAssign      (* target of =, annotated assignment with a value (nast.py visit_Assign/visit_AnnAssign) *)
| KWalrus      (* target of := (visit_NamedExpr) *)
| KParam       (* parameter of def / lambda (scope.py FuncScope.__init__: ArgumentName) *)
| KFor         (* for target (visit_For) *)
| KWith        (* with ... as target (visit_With) *)
| KExcept      (* except ... as name (visit_TryExcept) *)
| KComp        (* comprehension variable (visit_ListComp); lives in the ENCLOSING scope's flows *)
| KDef         (* def / async def: the FuncScope object itself is the name (visit_FunctionDef) *)
| KClass       (* class: the ClassScope object itself is the name (visit_ClassDef) *)
| KImport      (* import m / import m as n / import a.b as n : ImportedName, qualified=False *)
| KDotted      (* import a.b : ImportedName 'a', qualified=True *)
| KFromImport  (* from m import n [as k] : ImportedName, module = m (m may be '__future__') *)
| KStar.       (* from m import * : ImportedName(..., is_star=True) per public name of m *)

(* kind of scope: the scope owning the flow the binding statement is analysed in *)
Inductive skind := SModule | SClass | SFunction | SLambda.

Record binding := mkB {
  b_kind : kind;
  b_own : skind;             (* type of flow.scope: SourceScope / ClassScope / FuncScope (def) / FuncScope (lambda) *)
  b_parent : option skind;   (* type of flow.scope.parent; None for the module (its parent is the builtin scope) *)
  b_name : name;             (* name.name *)
  b_module : name;           (* ImportedName.module (imports only; [] otherwise) *)
  b_global : bool;           (* the identifier is declared `global` somewhere in the scope b_own (Python: the
                                declaration holds for the whole scope) *)
  b_gseen : bool;            (* ... and that declaration textually precedes the binding: name.name in
                                self.scope.globals at the time of Flow.add_name.  Differs from b_global only for
                                an import placed before its `global` statement (the one binder CPython accepts there) *)
  b_scope : nat;             (* identity of the scope object b_own (name.scope, set by Flow.add_name) *)
  b_line : N;                (* name.declared_at *)
  b_col : N
}.

(* Python class of the name object *)
Inductive ncls := CArgument | CAssigned | CImported | CFuncScope | CClassScope.

Definition cls_of (k : kind) : ncls :=
  match k with
  | KParam => CArgument
  | KAssign | KWalrus | KFor | KWith | KExcept | KComp => CAssigned
  | KDef => CFuncScope
  | KClass => CClassScope
  | KImport | KDotted | KFromImport | KStar => CImported
  end.

Definition is_imported (k : kind) : bool :=
  match cls_of k with CImported => true | _ => false end.
Definition is_argument (k : kind) : bool :=
  match cls_of k with CArgument => true | _ => false end.
(* getattr(name, 'is_star', None) *)
Definition is_star (k : kind) : bool := match k with KStar => true | _ => false end.

(* IGNORED_SCOPES = SourceScope, ClassScope   (linter.py:12) *)
Definition ignored_scope (s : skind) : bool :=
  match s with SModule | SClass => true | SFunction | SLambda => false end.

(* isinstance(flow.scope.parent, ClassScope) *)
Definition parent_is_class (b : binding) : bool :=
  match b_parent b with Some SClass => true | _ => false end.

(* ---- reports ----------------------------------------------------------------------------- *)

Inductive code := W01 | W02.

Definition code_eqb (a b : code) : bool :=
  match a, b with W01, W01 | W02, W02 => true | _, _ => false end.

(* 'Unused name: ' / 'Unused import: ' *)
Definition msg_prefix (w : code) : list N :=
  match w with
  | W01 => [85; 110; 117; 115; 101; 100; 32; 110; 97; 109; 101; 58; 32]%N
  | W02 => [85; 110; 117; 115; 101; 100; 32; 105; 109; 112; 111; 114; 116; 58; 32]%N
  end.

(* one entry of lint()'s result: (code, message, line, column) *)
Record rep := mkR { r_code : code; r_msg : list N; r_line : N; r_col : N }.

(* (w, message.format(name.name), name.declared_at[0], name.declared_at[1])   linter.py:96-97 *)
Definition mk_rep (b : binding) (w : code) : rep :=
  mkR w (msg_prefix w ++ b_name b) (b_line b) (b_col b).

Definition rep_eqb (x y : rep) : bool :=
  code_eqb (r_code x) (r_code y) && name_eqb (r_msg x) (r_msg y) &&
  N.eqb (r_line x) (r_line y) && N.eqb (r_col x) (r_col y).

Definition orep_eqb (x y : option rep) : bool :=
  match x, y with
  | None, None => true
  | Some a, Some b => rep_eqb a b
  | _, _ => false
  end.

(* ---- IMPL: one iteration of the report loop, linter.py:72-97 ------------------------------
   [used] = hasattr(name, 'used'); [qual] = name.name in qualified_imports. *)
Inductive stage := Skip | Go (w : code).

Definition report (b : binding) (used qual : bool) : option rep :=
  if used then None                                              (* :75 *)
  else if starts_underscore (b_name b) then None                 (* :77 *)
  else if is_star (b_kind b) then None                           (* :79 *)
  else
    let st :=
      if ignored_scope (b_own b) then                            (* :81 *)
        if is_imported (b_kind b) then                           (* :82 *)
          if name_eqb (b_module b) future_name then Skip         (* :83 *)
          else if qual then Skip                                 (* :85 *)
          else Go W02                                            (* :87-88 *)
        else Skip                                                (* :90 *)
      else Go W01 in
    match st with
    | Skip => None
    | Go w =>
        if is_argument (b_kind b) && parent_is_class b then None (* :91-93 *)
        else Some (mk_rep b w)                                   (* :96-97 *)
    end.

(* Flow.add_name (scope.py:79-95): global-declared names never reach a flow.  A comprehension variable
   (add_name(..., comprehension=True)) is inserted without consulting the declarations of the enclosing
   scope - it is local to the comprehension - so for KComp both b_global and b_gseen are false by
   construction of the record (the harness's syntactic pass sets them so, as CPython's symtable does). *)
Definition in_all_names (b : binding) : bool := negb (b_gseen b).

(* ---- IMPL: the usage loop, linter.py:40-70 --------------------------------------------------
   Bindings of a file are identified by their index in the file's binding list.  What
   flow.names_at(location)[name.id] returns for one read is the outcome of the flow analysis; it is
   abstract here: a row of alternatives (one for a plain name, several for a MultiName). *)
Inductive alt := ABind (i : nat)   (* a binding of this file *)
               | AOther.           (* RuntimeName of the builtin scope / UndefinedName marker *)

Record read := mkRd {
  rd_id : name;                    (* name.id *)
  rd_scope : nat;                  (* identity of flow.scope, the scope the read occurs in *)
  rd_row : option (list alt);      (* None: KeyError (E02) or no flow (E42) *)
  rd_qualified : bool;             (* type(sname) is ImportedName and sname.qualified *)
  rd_locals : bool;                (* sname.name == 'locals' and sname.location == (0, 0) *)
  rd_visible : list (option nat * list alt)
    (* every value of flow.names_at(location): (its `scope` attribute, the bindings it stands for).
       A plain name object has the attribute (Some s); a MultiName (name bound on alternative paths) and the
       RuntimeNames of the builtin scope have none (None): getattr(n, 'scope', None) *)
}.


(* use_name (linter.py:16-21): every alternative of the row is marked *)
Fixpoint mark (alts : list alt) (u : list nat) : list nat :=
  match alts with
  | [] => u
  | ABind i :: r => mark r (i :: u)
  | AOther :: r => mark r u
  end.

(* linter.py:63-65   for n in values: if getattr(n, 'scope', None) is flow.scope: use_name(n) *)
Fixpoint mark_scope (s : nat) (vis : list (option nat * list alt)) (u : list nat) : list nat :=
  match vis with
  | [] => u
  | (Some s', alts) :: r => mark_scope s r (if Nat.eqb s' s then mark alts u else u)
  | (None, _) :: r => mark_scope s r u
  end.

Definition step (st : list nat * list name) (r : read) : list nat * list name :=
  match rd_row r with
  | None => st                                                    (* :44-47, :54-56 *)
  | Some alts =>
      if rd_locals r then (mark_scope (rd_scope r) (rd_visible r) (fst st), snd st)   (* :62-65 *)
      else (mark alts (fst st),                                            (* :70 *)
            if rd_qualified r then rd_id r :: snd st else snd st)          (* :67-68 (sname.name = name.id) *)
  end.

Definition usage (reads : list read) : list nat * list name :=
  fold_left step reads ([], []).

Definition mem_nat (i : nat) (u : list nat) : bool := existsb (Nat.eqb i) u.

(* the report loop over all_names: bindings in enumeration order, each visited once *)
Fixpoint report_loop (n : nat) (bs : list binding) (u : list nat) (q : list name) : list (nat * rep) :=
  match bs with
  | [] => []
  | b :: r =>
      (if in_all_names b then
         match report b (mem_nat n u) (mem_name (b_name b) q) with
         | Some x => [(n, x)]
         | None => []
         end
       else []) ++ report_loop (S n) r u q
  end.

(* the W01/W02 part of lint(): (index of the binding, entry) *)
Definition lint_unused (bs : list binding) (reads : list read) : list (nat * rep) :=
  let uq := usage reads in report_loop 0 bs (fst uq) (snd uq).

(* ---- REF: the rule of the property text ------------------------------------------------------
   "a binding whose identifier is never read anywhere in the file is reported iff it is a local of
    a function or lambda that does not start with an underscore and is not a parameter of a method
    (W01), or an import at module or class level that does not start with an underscore, is not from
    __future__, is not a star import and whose top-level name is not used through a dotted import
    (W02)."
   [dotted_used] = the identifier is read somewhere while bound by a dotted import (necessarily false
   for an identifier that is never read). *)
Definition is_import_stmt (k : kind) : bool :=
  match k with KImport | KDotted | KFromImport | KStar => true | _ => false end.

Definition local_of_function (b : binding) : bool :=
  match b_own b with
  | SFunction | SLambda => negb (b_global b)   (* a global-declared name is not a local *)
  | SModule | SClass => false
  end.

(* a method = a def/lambda whose enclosing scope is a class *)
Definition method_parameter (b : binding) : bool :=
  match b_kind b, b_parent b with KParam, Some SClass => true | _, _ => false end.

Definition import_at_module_or_class_level (b : binding) : bool :=
  is_import_stmt (b_kind b) && match b_own b with SModule | SClass => true | _ => false end.

Definition rule (b : binding) (dotted_used : bool) : option code :=
  if local_of_function b then
    if negb (starts_underscore (b_name b)) && negb (method_parameter b) then Some W01 else None
  else if import_at_module_or_class_level b then
    if negb (starts_underscore (b_name b)) && negb (name_eqb (b_module b) future_name)
       && negb (is_star (b_kind b)) && negb dotted_used
    then Some W02 else None
  else None.

(* syntactic well-formedness that Python itself guarantees: `import *` only at module level *)
Definition wf (b : binding) : bool :=
  match b_kind b with KStar => match b_own b with SModule => true | _ => false end | _ => true end.

(* the sub-domain on which the property holds (open finding K3-C10): not an import statement at
   module or class level whose identifier is declared `global` in that very scope, and the `global`
   declaration, if any, precedes the binding *)
Definition in_domain (b : binding) : bool :=
  Bool.eqb (b_gseen b) (b_global b) && negb (b_global b && import_at_module_or_class_level b).

(* ---- helpers for the correspondence ------------------------------------------------------- *)

(* multiset equality of report lists *)
Fixpoint remove_rep (x : rep) (l : list rep) : option (list rep) :=
  match l with
  | [] => None
  | y :: r => if rep_eqb x y then Some r
              else match remove_rep x r with Some r' => Some (y :: r') | None => None end
  end.

Fixpoint same_reps (a b : list rep) : bool :=
  match a with
  | [] => match b with [] => true | _ => false end
  | x :: r => match remove_rep x b with Some b' => same_reps r b' | None => false end
  end.

Definition ocode_eqb (x y : option code) : bool :=
  match x, y with
  | None, None => true
  | Some a, Some b => code_eqb a b
  | _, _ => false
  end.
