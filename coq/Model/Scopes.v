(* Scope trees and the two name-ownership rules compared by property C05 (definitions only;
   proofs in Proofs/ScopesProofs.v).

   REF   py_owner     CPython 3.12 Python/symtable.c  analyze_block / analyze_name
   IMPL  supp_owners  supp/scope.py  Flow.add_name, Flow._get_parent_names (entry rule),
                      SourceScope.names, FuncScope.names, ClassScope.names, BuiltinScope.names,
                      SourceScope.resolve_nonlocals; supp/nast.py visit_Global / visit_Nonlocal

   Names are interned to N by the harness. A scope tree node carries what the compiler's first pass
   (the symtable_visit functions) collects for a block: its kind, the names it binds (DEF_BOUND:
   assignments, parameters, imports, def/class names, for/with/except targets, walrus targets - a walrus
   inside a comprehension binds in the block the comprehension is written in), and its `global` /
   `nonlocal` declarations. Comprehension iteration variables are NOT among the bound names of the
   block: they are local to the comprehension, for CPython and (since fix F53: Flow.add_name(...,
   comprehension=True) keeps them in the comprehension's flow, out of scope.locals and out of the
   global/nonlocal routing) for supp. The expressions of a comprehension are read in the block the
   comprehension is written in (CPython 3.12 inlines list/set/dict comprehensions, supp keeps all
   comprehension flows in the enclosing scope); reads of a name that is a comprehension variable of a
   block on their chain are outside the compared domain (harness: comp_tainted).

   A scope of the tree is addressed by its path (child indices from the module). Ownership of a name
   read in a scope depends only on the chain of blocks from the module down to that scope, so both
   rules are functions of that chain; the owner is reported as the depth of the owning block on the
   chain (0 = the module). *)
From Coq Require Import List Bool Arith NArith.
Import ListNotations.

Definition name := N.

Definition mem (x : name) (s : list name) : bool := existsb (N.eqb x) s.

Inductive kind := KModule | KFunction | KLambda | KClass.

(* _PyST_IsFunctionLike; for supp: FuncScope (nast.py visit_FunctionDef / visit_Lambda) *)
Definition function_like (k : kind) : bool :=
  match k with KFunction | KLambda => true | _ => false end.

Definition is_class (k : kind) : bool := match k with KClass => true | _ => false end.

Record frame := Frame {
  fkind : kind;
  fbound : list name;       (* names bound somewhere in the block (DEF_BOUND), comprehension variables excluded *)
  fglobal : list name;      (* `global` declarations of the block (DEF_GLOBAL) *)
  fnonlocal : list name     (* `nonlocal` declarations of the block (DEF_NONLOCAL) *)
}.

Inductive tree := Node : frame -> list tree -> tree.

Definition root_frame (t : tree) : frame := match t with Node f _ => f end.
Definition children (t : tree) : list tree := match t with Node _ cs => cs end.

(* frames from the module down to the scope at path p (root first); None = no such scope *)
Fixpoint chain (t : tree) (p : list nat) : option (list frame) :=
  match p with
  | [] => Some [root_frame t]
  | i :: p' =>
      match nth_error (children t) i with
      | Some c => match chain c p' with
                  | Some fs => Some (root_frame t :: fs)
                  | None => None
                  end
      | None => None
      end
  end.

(* ------------------------------------------------------------------------------------------ *)
(* owners                                                                                       *)
(* ------------------------------------------------------------------------------------------ *)

Inductive owner :=
  | OScope (depth : nat)   (* the function / class block at that depth of the chain (depth >= 1) *)
  | OModule                (* supp only: a module-level binding or a binding made under `global` *)
  | OBuiltin               (* supp only: BuiltinScope *)
  | OGlobal.               (* CPython: global (module dict, then builtins, at run time) *)

Definition owner_eqb (a b : owner) : bool :=
  match a, b with
  | OScope d, OScope e => Nat.eqb d e
  | OModule, OModule | OBuiltin, OBuiltin | OGlobal, OGlobal => true
  | _, _ => false
  end.

(* what CPython can tell at compile time about supp's two kinds of global owners *)
Definition coarse (o : owner) : owner :=
  match o with OModule | OBuiltin => OGlobal | _ => o end.

(* ------------------------------------------------------------------------------------------ *)
(* REF: symtable.c                                                                              *)
(* ------------------------------------------------------------------------------------------ *)

(* The sets `bound` and `global` that analyze_block passes down, restricted to one name x:
   pbound = Some d  <->  x in bound, and the function block that put it there is at depth d
   pglobal = true   <->  x in global *)
Record pstate := PState { pbound : option nat; pglobal : bool }.

Inductive pscope := PLocal | PGlobalExplicit | PGlobalImplicit | PFree (d : nat) | PErrNonlocal.

(* analyze_name (symtable.c:512-588 in 3.12) for name x of block f at depth d, given the sets
   passed to the block. Returns the scope of the name and the sets as mutated by the call.
   is_module: bound == NULL there. *)
Definition analyze_name (f : frame) (d : nat) (x : name) (st : pstate) : pscope * pstate :=
  if mem x (fglobal f) then
    (* SET_SCOPE GLOBAL_EXPLICIT; global.add(x); bound.discard(x) *)
    (PGlobalExplicit, PState None true)
  else if mem x (fnonlocal f) then
    (* "nonlocal declaration not allowed at module level" / "no binding for nonlocal found" *)
    match pbound st with
    | Some o => (PFree o, st)
    | None => (PErrNonlocal, st)
    end
  else if mem x (fbound f) then
    (* SET_SCOPE LOCAL; local.add(x); global.discard(x) *)
    (PLocal, PState (pbound st) false)
  else
    match pbound st with
    | Some o => (PFree o, st)                         (* an enclosing function binds it: FREE *)
    | None => (PGlobalImplicit, st)                   (* both remaining branches: GLOBAL_IMPLICIT *)
    end.

(* analyze_block (symtable.c:930-1090): the sets handed to the children of block f (depth d).
   - class block: newbound/newglobal are copied from the incoming sets BEFORE the names of the
     class are analysed, so neither its bindings nor its declarations reach its children;
   - function-like block: the names are analysed first (mutating the incoming sets), then
     newbound = local | bound, newglobal = global;
   - module block: as for functions, but its locals are not added to newbound. *)
Definition child_state (f : frame) (d : nat) (x : name) (st : pstate) : pstate :=
  match fkind f with
  | KClass => st
  | KModule =>
      let '(_, st') := analyze_name f d x st in PState None (pglobal st')
  | KFunction | KLambda =>
      let '(sc, st') := analyze_name f d x st in
      match sc with
      | PLocal => PState (Some d) (pglobal st')
      | _ => st'
      end
  end.

(* top-down pass over the ancestors (root first), depth counted from d *)
Fixpoint pass_down (fs : list frame) (d : nat) (x : name) (st : pstate) : pstate :=
  match fs with
  | [] => st
  | f :: r => pass_down r (S d) x (child_state f d x st)
  end.

Definition init_state : pstate := PState None false.

(* scope of x in the last block of a root-first chain *)
Definition py_scope (fs : list frame) (x : name) : option pscope :=
  match rev fs with
  | [] => None
  | f :: rup =>
      let up := rev rup in
      Some (fst (analyze_name f (length up) x (pass_down up 0 x init_state)))
  end.

(* the owner: the block itself when local (the module block's locals are globals), the function
   recorded in `bound` when free *)
Definition py_owner (fs : list frame) (x : name) : option owner :=
  match py_scope fs x with
  | None => None
  | Some PLocal => Some (match length fs with 1 => OGlobal | n => OScope (n - 1) end)
  | Some (PFree d) => Some (OScope d)
  | Some PGlobalExplicit | Some PGlobalImplicit => Some OGlobal
  | Some PErrNonlocal => None                       (* CPython raises SyntaxError *)
  end.

Definition py_owner_at (t : tree) (p : list nat) (x : name) : option owner :=
  match chain t p with Some fs => py_owner fs x | None => None end.

(* ------------------------------------------------------------------------------------------ *)
(* IMPL: supp                                                                                   *)
(* ------------------------------------------------------------------------------------------ *)

(* Which repairs are in the modelled code: f14 = nonlocal declarations are honoured (fix F14),
   f26 = names declared global are looked up at module level (fix F26). (false, false) is the
   pinned tree. *)
Record cfg := Cfg { f14 : bool; f26 : bool }.
Definition cfg_fixed := Cfg true true.
Definition cfg_pinned := Cfg false false.

(* what the module-level lookup needs besides the chain *)
Record env := Env {
  builtin : name -> bool;      (* BuiltinScope.names (scope.py BuiltinScope) *)
  grouted : name -> bool       (* SourceScope._global_names: some block declares the name global and binds it *)
}.

Section Supp.
Variable c : cfg.
Variable e : env.

Definition declared_nonlocal (f : frame) (x : name) : bool := f14 c && mem x (fnonlocal f).

(* Flow.add_name (scope.py:73-80 + fix F14): a bound name is a local of the scope unless the scope
   declares it global (routed to top.add_global) or nonlocal (kept in the flow, not a local) *)
Definition is_local (f : frame) (x : name) : bool :=
  mem x (fbound f) && negb (mem x (fglobal f)) && negb (declared_nonlocal f x).

(* a binding made under a nonlocal declaration: stays in the flows of the scope *)
Definition is_routed (f : frame) (x : name) : bool :=
  mem x (fbound f) && negb (mem x (fglobal f)) && declared_nonlocal f x.

(* SourceScope.resolve_nonlocals (fix F14): Name.scope of such a binding = the nearest enclosing
   FuncScope that has the name among its locals; unchanged (the declaring scope, depth dflt) when
   there is none. [up]: the enclosing frames, nearest first. *)
Fixpoint resolve_nonlocal (up : list frame) (x : name) (dflt : nat) : owner :=
  match up with
  | [] => OScope dflt
  | f :: r =>
      if function_like (fkind f) && is_local f x then OScope (length r)
      else resolve_nonlocal r x dflt
  end.

(* Names at module level. SourceScope.names = MergedDict(flow.names, _global_names); flow.names of the
   module = its own bindings over its entry names; entry names of the module
   (Flow._get_parent_names, scope is top) = MergedDict(_global_names, BuiltinScope.names): the module's
   own locals are not subtracted (a module-level read falls through to builtins until the name is bound).
   Own names and entry names are joined with ++ (which one a read sees depends on the flow position).
   Used both for reads made at module level and for what the module offers to nested scopes. *)
Definition top_names (m : frame) (x : name) : list owner :=
  (if is_local m x then [OModule] else []) ++
  (if grouted e x then [OModule]
   else if builtin e x then [OBuiltin]
   else []).

Definition last_frame (up : list frame) (dflt : frame) : frame := last up dflt.

(* [scope_names (a :: up) x]: owners of the alternatives of x in `a.names`, the mapping a scope
   offers to the scopes nested in it. Nearest first; the last frame is the module.
   - ClassScope.names (scope.py ClassScope.names): the parent's names, the class body is skipped;
   - FuncScope.names = flow.names = own names over the entry names; entry names of a function
     (Flow._get_parent_names, else-branch): the outer scope's names minus the function's own locals,
     and (fix F26) the names it declares global looked up in top.names.
   Own names and entry names are joined with ++: which of the two a read sees depends on the flow
   position, both are possible. *)
Fixpoint scope_names (ch : list frame) (x : name) : list owner :=
  match ch with
  | [] => []
  | a :: up =>
      match up with
      | [] => top_names a x
      | _ :: _ =>
          match fkind a with
          | KClass => scope_names up x
          | _ =>
              if is_local a x then [OScope (length up)]
              else
                (if is_routed a x then [resolve_nonlocal up x (length up)] else []) ++
                (if f26 c && mem x (fglobal a) then top_names (last_frame up a) x
                 else scope_names up x)
          end
      end
  end.

(* owners of the alternatives Flow.names_at() can return for a read of x made in the innermost
   scope of the chain [a :: up] (nearest first):
   - module: top_names;
   - function: own names (locals, or bindings routed by a nonlocal declaration), entry names;
   - class: own names, entry names = all outer names (Flow._get_parent_names, ClassScope branch),
     with fix F26 the names declared global looked up in top.names. *)
Definition supp_owners_nf (ch : list frame) (x : name) : list owner :=
  match ch with
  | [] => []
  | a :: up =>
      match up with
      | [] => top_names a x
      | _ :: _ =>
          (if is_local a x then [OScope (length up)] else []) ++
          (if is_routed a x then [resolve_nonlocal up x (length up)] else []) ++
          (if is_local a x && negb (is_class (fkind a)) then []      (* outer names minus own locals *)
           else if f26 c && mem x (fglobal a) then top_names (last_frame up a) x
           else scope_names up x)
      end
  end.

Definition supp_owners (fs : list frame) (x : name) : list owner := supp_owners_nf (rev fs) x.

End Supp.

(* _global_names computed from the tree: some block declares x global and binds it *)
Fixpoint tree_grouted (t : tree) (x : name) : bool :=
  match t with
  | Node f cs => (mem x (fglobal f) && mem x (fbound f)) || existsb (fun ch => tree_grouted ch x) cs
  end.

Definition env_of (builtins : list name) (t : tree) : env :=
  Env (fun x => mem x builtins) (tree_grouted t).

Definition supp_owners_at (c : cfg) (builtins : list name) (t : tree) (p : list nat) (x : name) : list owner :=
  match chain t p with
  | Some fs => supp_owners c (env_of builtins t) fs x
  | None => []
  end.

(* ------------------------------------------------------------------------------------------ *)
(* the domain of the comparison                                                                 *)
(* ------------------------------------------------------------------------------------------ *)

(* CPython accepts the nonlocal declarations of x along the chain (nearest first): wherever a block
   declares x nonlocal (and not global), the sets passed to it contain a binding.
   Otherwise the module is a SyntaxError and is outside the property's quantifier. *)
Fixpoint nonlocal_ok_nf (ch : list frame) (x : name) : bool :=
  match ch with
  | [] => true
  | a :: up =>
      (if mem x (fnonlocal a) && negb (mem x (fglobal a))
       then match pbound (pass_down (rev up) 0 x init_state) with Some _ => true | None => false end
       else true)
      && nonlocal_ok_nf up x
  end.

Definition nonlocal_ok (fs : list frame) (x : name) : bool := nonlocal_ok_nf (rev fs) x.

(* shape of a chain (nearest first): the outermost block is the module, no other block is *)
Definition is_module (k : kind) : bool := match k with KModule => true | _ => false end.

Fixpoint shape_nf (ch : list frame) : bool :=
  match ch with
  | [] => false
  | a :: up => match up with
               | [] => is_module (fkind a)
               | _ :: _ => negb (is_module (fkind a)) && shape_nf up
               end
  end.

Definition shape_ok (fs : list frame) : bool := shape_nf (rev fs).

(* reads made directly in a class body are compared only for names the class does not bind *)
Definition in_domain (fs : list frame) (x : name) : bool :=
  match rev fs with
  | a :: _ => negb (is_class (fkind a) && mem x (fbound a))
  | [] => false
  end.

(* the sub-domain on which the pinned tree (no fix) agrees with CPython: no nonlocal declaration of x
   on the chain, and no block that declares x global below a function that binds x *)
Fixpoint no_global_under_local_nf (ch : list frame) (x : name) : bool :=
  match ch with
  | [] => true
  | a :: up =>
      (if mem x (fglobal a)
       then match pbound (pass_down (rev up) 0 x init_state) with Some _ => false | None => true end
       else true)
      && no_global_under_local_nf up x
  end.

Definition pinned_domain (fs : list frame) (x : name) : bool :=
  forallb (fun f => negb (mem x (fnonlocal f))) fs && no_global_under_local_nf (rev fs) x.

(* the module-level lookup of supp can succeed: the module binds x as one of its own names, or some
   block binds it under a `global` declaration (_global_names), or it is a builtin.
   [fs] root first: its head is the module frame. *)
Definition module_offers (e : env) (fs : list frame) (x : name) : bool :=
  match fs with
  | m :: _ => is_local cfg_fixed m x || grouted e x || builtin e x
  | [] => false
  end.
