(* Model of the text-level functions of supp (definitions only; proofs in Proofs/TextProofs.v).

   find_id_loc      supp/scope.py  SourceScope.find_id_loc   (IMPORT_DELIMETERS, IMPORT_END_DELIMETERS)
   Characters are code points (N); a line is a list of code points without its newline. *)
From Coq Require Import List Bool Arith NArith.
Import ListNotations.

Definition nl : N := 10%N.

(* '\n'.join(lines) *)
Fixpoint join (ls : list (list N)) : list N :=
  match ls with
  | [] => []
  | l :: r => match r with [] => l | _ => l ++ nl :: join r end
  end.

Fixpoint prefixb (p s : list N) : bool :=
  match p, s with
  | [], _ => true
  | _ :: _, [] => false
  | a :: p', b :: s' => N.eqb a b && prefixb p' s'
  end.

Definition memN (c : N) (set : list N) : bool := existsb (N.eqb c) set.

(* string.whitespace = ' \t\n\r\x0b\x0c' *)
Definition whitespace : list N := [32; 9; 10; 13; 11; 12]%N.
(* scope.py:25  IMPORT_DELIMETERS = string.whitespace + '(,' *)
Definition import_delims : list N := whitespace ++ [40; 44]%N.
(* scope.py:26  IMPORT_END_DELIMETERS = string.whitespace + '),.;#\\' *)
Definition import_end_delims : list N := whitespace ++ [41; 44; 46; 59; 35; 92]%N.

(* DEF_END_DELIMETERS = string.whitespace + '(:[#\\' (after the fix for F27) *)
Definition def_end_delims : list N := whitespace ++ [40; 58; 91; 35; 92]%N.

(* [delims] = Some (left set, right set) when delimeters=True, None when delimeters=False *)
Definition dset := option (list N * list N).

Definition left_ok (delims : dset) (i : nat) (prev : option N) : bool :=
  Nat.eqb i 0 ||
  match delims with
  | None => true
  | Some (ls, _) => match prev with Some c => memN c ls | None => false end
  end.

Definition right_ok (delims : dset) (rest : list N) : bool :=
  match rest with
  | [] => true                                (* ep >= source_len *)
  | c :: _ => match delims with None => true | Some (_, rs) => memN c rs end
  end.

(* an occurrence of [id] at the head of [s] that the loop of find_id_loc accepts *)
Definition accept (delims : dset) (id : list N) (i : nat) (prev : option N) (s : list N) : bool :=
  prefixb id s && left_ok delims i prev && right_ok delims (skipn (length id) s).

(* the while-loop of scope.py:214-224: successive str.find from pos+1, first accepted hit.
   [i] is the index of the head of [s] in the window, [prev] the character before it. *)
Fixpoint scan (delims : dset) (id : list N) (from i : nat) (prev : option N) (s : list N) : option nat :=
  match s with
  | [] => None
  | c :: r =>
      if Nat.leb from i && accept delims id i prev s then Some i
      else scan delims id from (S i) (Some c) r
  end.

Definition count_nl (s : list N) : nat := length (filter (N.eqb nl) s).

(* number of characters after the last newline of s  (pos - source.rfind('\n', 0, pos) - 1) *)
Fixpoint col_of_acc (s : list N) (acc : nat) : nat :=
  match s with
  | [] => acc
  | c :: r => if N.eqb c nl then col_of_acc r 0 else col_of_acc r (S acc)
  end.
Definition col_of (s : list N) : nat := col_of_acc s 0.

Definition window (lines : list (list N)) (sl : nat) : list (list N) :=
  firstn 51 (skipn (sl - 1) lines).                      (* lines[sl-1:sl+50] *)

(* scope.py:210-226; result (line, col); [None] of scan = the fall-back `return start` *)
Definition find_id_loc (lines : list (list N)) (id : list N) (sl pos shift : nat) (delims : dset)
  : nat * nat :=
  let src := join (window lines sl) in
  match scan delims id (S pos) 0 None src with
  | Some p => (sl + count_nl (firstn p src), col_of (firstn p src) + shift)
  | None => (sl, pos)
  end.

Definition found (lines : list (list N)) (id : list N) (sl pos : nat) (delims : dset) : bool :=
  match scan delims id (S pos) 0 None (join (window lines sl)) with Some _ => true | None => false end.

(* text of [lines] at 1-based line l, 0-based column c *)
Definition text_at (lines : list (list N)) (l c : nat) : list N :=
  skipn c (nth (l - 1) lines []).

(* ---- completion prefix (assistant.py:46): re.split(r'(\.|\s|\()', line)[-1] ------------- *)

(* characters matched by \s for str patterns on ASCII input *)
Definition is_space (c : N) : bool := memN c [32; 9; 10; 13; 11; 12; 28; 29; 30; 31]%N.

Definition is_id_char (c : N) : bool :=
  ((48 <=? c) && (c <=? 57) || (65 <=? c) && (c <=? 90) || (97 <=? c) && (c <=? 122) || (c =? 95))%N.

(* the last piece after the last separator satisfying [sep] *)
Fixpoint last_piece (sep : N -> bool) (s acc : list N) : list N :=
  match s with
  | [] => rev acc
  | c :: r => if sep c then last_piece sep r [] else last_piece sep r (c :: acc)
  end.

(* prefix as computed on the pinned tree: split on '.', whitespace and '(' only (defect F6) *)
Definition prefix_split (line : list N) : list N :=
  last_piece (fun c => (c =? 46)%N || is_space c || (c =? 40)%N) line [].

(* the contract (C12): longest run of identifier characters immediately left of the cursor *)
Definition id_suffix (line : list N) : list N :=
  last_piece (fun c => negb (is_id_char c)) line [].
