(* REF for C01: the semantics of one scope body with ALL of Python's abrupt exits - return,
   break, continue and exceptions raised anywhere (Exit k), caught by the nearest try that has a
   handler for the class, finally clauses running on every way out - as an executable
   interpreter driven by a decision list. The harness compares it with CPython executing the
   instrumented rendering of the same tree under the same decisions (harness/props/c01.py).
   Model/Sem.v is the restriction to the structured fragment of C02/C03. *)
From Coq Require Import List Bool Arith NArith.
Import ListNotations.
From Supp Require Import Model.PyCore Model.Sem.

Inductive xout := XN | XRet | XBrk | XCont | XExc (i : nat).

Definition xout_of (k : exitk) : xout :=
  match k with KRet => XRet | KBrk => XBrk | KCont => XCont | KExc i => XExc i end.

Inductive resX :=
| DoneX (p : renv) (tr : trace) (o : xout) (ds : list nat)
| FuelX
| NoDecX.

Definition bindX (r : resX) (k : renv -> trace -> xout -> list nat -> resX) : resX :=
  match r with DoneX p tr o ds => k p tr o ds | other => other end.

Definition prependX (t : trace) (r : resX) : resX :=
  match r with DoneX p tr o ds => DoneX p (t ++ tr) o ds | other => other end.

(* "a then, if it completed normally, k" *)
Definition thenX (r : resX) (k : renv -> list nat -> resX) : resX :=
  bindX r (fun p1 t1 o1 ds1 =>
    match o1 with XN => prependX t1 (k p1 ds1) | _ => DoneX p1 t1 o1 ds1 end).

Section Steps.
  Variable rec : cmd -> renv -> list nat -> resX.     (* the interpreter with one unit less fuel *)

  (* a pending exception of class i in state p0 meets the handlers hs *)
  Definition dispatchX (hs : hlist) (i : nat) (p0 : renv) (ds0 : list nat) : resX :=
    match hnth hs i with
    | None => DoneX p0 [] (XExc i) ds0
    | Some (ty, nm, hb) =>
        thenX (rec ty p0 ds0) (fun p1 ds1 => rec hb (bind_opt_r nm p1) ds1)
    end.

  (* the finally clause runs whatever happened; its own abrupt exit wins *)
  Definition finX (f : cmd) (r : resX) : resX :=
    bindX r (fun p2 t2 o1 ds2 =>
      prependX t2 (bindX (rec f p2 ds2) (fun p3 tf o2 ds3 =>
        DoneX p3 tf (match o2 with XN => o1 | _ => o2 end) ds3))).

  (* what happens after one execution of a loop body *)
  Definition after_bodyX (again : renv -> list nat -> resX) (r : resX) : resX :=
    bindX r (fun p2 tb ob ds3 =>
      match ob with
      | XN | XCont => prependX tb (again p2 ds3)
      | XBrk => DoneX p2 tb XN ds3                 (* break: the loop ends, else is skipped *)
      | _ => DoneX p2 tb ob ds3                    (* return / exception leave the loop *)
      end).

  Definition try_bodyX (b : cmd) (rl : bool) (hs : hlist) (e : cmd) (p : renv) (ds0 : list nat) : resX :=
    bindX (rec b p ds0) (fun pb tb ob ds1 =>
      match ob with
      | XN =>
          if rl then
            match ds1 with
            | [] => NoDecX
            | O :: ds2 => prependX tb (rec e pb ds2)
            | S i :: ds2 => prependX tb (dispatchX hs i pb ds2)
            end
          else prependX tb (rec e pb ds1)
      | XExc i => prependX tb (dispatchX hs i pb ds1)
      | _ => DoneX pb tb ob ds1
      end).

  Definition stepX (c : cmd) (p : renv) (ds : list nat) : resX :=
    match c with
    | Skip => DoneX p [] XN ds
    | Bind d x => DoneX (upd p x (Some d)) [] XN ds
    | Read r x => DoneX p [(r, p x)] XN ds
    | Exit k => DoneX p [] (xout_of k) ds
    | Seq a b => thenX (rec a p ds) (fun p1 ds1 => rec b p1 ds1)
    | Branch a b =>
        match ds with
        | [] => NoDecX
        | O :: ds' => rec a p ds'
        | _ :: ds' => rec b p ds'
        end
    | While t b e =>
        thenX (rec t p ds) (fun p1 ds1 =>
          match ds1 with
          | [] => NoDecX
          | O :: ds2 => rec e p1 ds2
          | _ :: ds2 => after_bodyX (fun p2 ds3 => rec (While t b e) p2 ds3) (rec b p1 ds2)
          end)
    | For tg b e =>
        match ds with
        | [] => NoDecX
        | O :: ds1 => rec e p ds1
        | _ :: ds1 =>
            thenX (rec tg p ds1) (fun p1 ds2 =>
              after_bodyX (fun p2 ds3 => rec (For tg b e) p2 ds3) (rec b p1 ds2))
        end
    | Try rf b rl hs e f =>
        if rf then
          match ds with
          | [] => NoDecX
          | O :: ds0 => finX f (try_bodyX b rl hs e p ds0)
          | S i :: ds0 => finX f (dispatchX hs i p ds0)
          end
        else finX f (try_bodyX b rl hs e p ds)
    end.
End Steps.

Fixpoint runX (fuel : nat) (c : cmd) (p : renv) (ds : list nat) : resX :=
  match fuel with
  | O => FuelX
  | S fuel => stepX (runX fuel) c p ds
  end.
