(* REF for C02 with loop exits: the interpreter of Model/SemX.v, except that the decision taken
   at a try statement's raise points (rf / rl) only ever raises a class the statement has a
   handler for - a decision S i without an i-th handler means "no exception", as in Model/Sem.v
   and as the harness's `_raise(nh)` does (`if 0 < d <= nh: raise`). Uncaught exceptions of a try
   statement with a finally clause belong to the K3 family and are outside C02's fragment. *)
From Coq Require Import List Bool Arith NArith.
Import ListNotations.
From Supp Require Import Model.PyCore Model.Sem Model.SemX.

Definition caught (hs : hlist) (d : nat) : nat :=
  match d with
  | O => O
  | S i => match hnth hs i with Some _ => S i | None => O end
  end.

Section StepsS.
  Variable rec : cmd -> renv -> list nat -> resX.

  Definition try_bodyXs (b : cmd) (rl : bool) (hs : hlist) (e : cmd) (p : renv) (ds0 : list nat) : resX :=
    bindX (rec b p ds0) (fun pb tb ob ds1 =>
      match ob with
      | XN =>
          if rl then
            match ds1 with
            | [] => NoDecX
            | d :: ds2 =>
                match caught hs d with
                | O => prependX tb (rec e pb ds2)
                | S i => prependX tb (dispatchX rec hs i pb ds2)
                end
            end
          else prependX tb (rec e pb ds1)
      | XExc i => prependX tb (dispatchX rec hs i pb ds1)
      | _ => DoneX pb tb ob ds1
      end).

  Definition stepXs (c : cmd) (p : renv) (ds : list nat) : resX :=
    match c with
    | Try rf b rl hs e f =>
        if rf then
          match ds with
          | [] => NoDecX
          | d :: ds0 =>
              match caught hs d with
              | O => finX rec f (try_bodyXs b rl hs e p ds0)
              | S i => finX rec f (dispatchX rec hs i p ds0)
              end
          end
        else finX rec f (try_bodyXs b rl hs e p ds)
    | _ => stepX rec c p ds
    end.
End StepsS.

Fixpoint runXs (fuel : nat) (c : cmd) (p : renv) (ds : list nat) : resX :=
  match fuel with
  | O => FuelX
  | S fuel => stepXs (runXs fuel) c p ds
  end.
