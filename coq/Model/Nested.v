(* IMPL for the inter-scope half of C01: a chain of nested function scopes.

   supp analyses the body of a nested function starting from an entry environment in which the
   function's own locals (every name its body binds: scope.py Scope.locals) are unbound and every
   other name has the alternatives the ENCLOSING scope ends with (FuncScope.names = the names of
   its last flow; the entry flow of the nested scope has parent_names = pscope.names).  The
   enclosing scope's own body is analysed the same way from its own enclosing scope, and so on
   up to the module.  [outers] lists the enclosing function bodies, outermost first.

   Definitions only; proofs in Proofs/NestedProofs.v; tied to the code by part D of
   harness/props/c01.py (supp's alternatives at every read of every level of generated chains =
   [seen_nested]). *)
From Coq Require Import List Bool NArith.
Import ListNotations.
From Supp Require Import Model.PyCore Model.Reach Model.ReachX.

Definition mem_name (x : name) (l : list name) : bool := existsb (N.eqb x) l.

(* entry of a function scope whose locals are [locals], nested in a scope that ends with [outer] *)
Definition enter_a (locals : list name) (outer : aenv) : aenv :=
  fun x => if mem_name x locals then [None] else outer x.

(* what a function scope with body c exports to the scopes nested in it *)
Definition exit_a (outer : aenv) (c : cmd) : aenv := nrm (anx c (enter_a (binds c) outer)).

Definition exit_chain (outers : list cmd) : aenv := fold_left exit_a outers aenv0.

Definition entry_a (outers : list cmd) (ci : cmd) : aenv := enter_a (binds ci) (exit_chain outers).

Definition seen_nested (outers : list cmd) (ci : cmd) (r : site) : list alt := seenx ci (entry_a outers ci) r.
Definition visible_nested (outers : list cmd) (ci : cmd) (r : site) : bool := visiblex ci (entry_a outers ci) r.
Definition e02_nested (outers : list cmd) (ci : cmd) (r : site) : bool := e02x ci (entry_a outers ci) r.

(* REF side: the run-time namespace a call of the innermost function starts with.  The call may
   happen at any time during or after the execution of the enclosing bodies, so the only thing
   known about it is Python's LEGB rule: the function's own locals are unbound, and any other
   name can be bound only if the body of some enclosing function binds it (modelled, not proved:
   CPython's cell / frame semantics; the owner computation is C05's theorem). *)
Definition rt_env (outers : list cmd) (ci : cmd) (p : renv) : Prop :=
  forall x d, p x = Some d ->
    mem_name x (binds ci) = false /\ exists c, In c outers /\ In x (binds c).
