(* Model of the client side of supp's server start-up protocol (definitions only; proofs in
   Proofs/ClientProofs.v).

     supp/remote.py  Environment.prepare (73-82), run (84-90), _threaded_run (67-71),
                     _run (34-65, reduced to its two external actions Popen / Client),
                     _call (92-104) behind a public wrapper (eval, 183-184), close (186-196).

   Granularity: ONE step of a thread = ONE source line of prepare / run / _threaded_run / _call /
   close / the public wrapper (exactly the 'line' events CPython 3.12 delivers to sys.settrace,
   which the harness uses as preemption points).  Inside _run the only preemption points are the
   two calls that leave the process: Popen(...) (line 53) and Client(addr) (line 58); the lines
   of _run between them touch locals only and are executed together with the preceding action.
   Blocking is observable: a thread that finds the lock taken, or joins an unfinished starter,
   moves to a waiting pc whose step is disabled (None) until the condition holds.

   Two switches select the pinned-tree behaviour or the repaired one:
     fix_f2 = false : close() line 194 is  dumps(('close', (), {}), 2)  -> TypeError      (F2)
     fix_f3 = false : run() tests self.prepare_thread (line 86) and reads it AGAIN on the
                      next line for .join() (line 87)                                      (F3)
     fix_f3 = true  : run() reads the handle once into a local (thread = self.prepare_thread;
                      if thread: thread.join()), one line more.

   Environment outcomes are oracles: o_popen k = does the k-th Popen call succeed, o_conn k =
   outcome of the k-th Client(addr) attempt (connected / refused, retry / refused and the
   5 s budget is used up -> 'Supp server launching timeout exceed').

   The connection is the harness' fake: a counter of replies not yet read (the fake server
   answers every request at once), a flag 'close request received' and a flag 'closed locally'.
   recv with no reply outstanding: EOFError after a close request, otherwise the real client
   would block until some other thread's reply arrives - recorded as HangErr (possible only
   when close() races a call; never for close-free scripts, theorem C16_calls_answered). *)
From Coq Require Import List Bool Arith NArith.
Import ListNotations.

Inductive op := Prepare | Call | Close.

Inductive exn :=
| AttrErr       (* AttributeError *)
| TypeErr       (* TypeError (F2) *)
| OSErr         (* OSError: handle is closed *)
| EOFErr        (* EOFError: server end closed *)
| HangErr       (* recv would block for ever (fake: HangError) *)
| LaunchErr     (* Popen failed: FileNotFoundError *)
| TimeoutErr    (* Exception('Supp server launching timeout exceed: ...'), remote.py:61 *)
| RuntimeErr.   (* RuntimeError: threads can only be started once *)

Inductive conn_outcome := COk | CRetry | CTimeout.

Record cfg := { fix_f2 : bool; fix_f3 : bool }.
Definition cfg_fixed : cfg := {| fix_f2 := true; fix_f3 := true |}.
Definition cfg_asis : cfg := {| fix_f2 := false; fix_f3 := false |}.

Record oracle := { o_popen : nat -> bool; o_conn : nat -> conn_outcome }.
Definition mk_oracle (p : list bool) (c : list conn_outcome) : oracle :=
  {| o_popen := fun k => nth k p true; o_conn := fun k => nth k c COk |}.
Definition oracle_ok : oracle := mk_oracle [] [].

(* c_addr = the listener address this connection was made to (Client(addr), remote.py:58) *)
Record conn_st := { c_closed : bool; c_gotclose : bool; c_pending : nat; c_addr : nat }.
Definition fresh_conn (a : nat) : conn_st :=
  {| c_closed := false; c_gotclose := false; c_pending := 0; c_addr := a |}.

(* program counter of a client thread inside the current operation *)
Inductive pc :=
(* prepare(): 73-82 *)
| PAcq                      (* 74  with self.prepare_lock:        (acquire) *)
| PAcqW                     (* 74  ... blocked in acquire *)
| PTestH                    (* 75  if self.prepare_thread: *)
| PRet1                     (* 76      return *)
| PHas                      (* 78  if hasattr(self, 'conn'): *)
| PRet2                     (* 79      return *)
| PMk                       (* 81  self.prepare_thread = Thread(target=self._threaded_run) *)
| PStart                    (* 82  self.prepare_thread.start() *)
| PRel                      (* 74  with-exit: release *)
| PRelExc (e : exn)         (* 74  with-exit while e propagates *)
(* public wrapper, e.g. eval(): 183-184, then _call(): 92-104 *)
| CEntry                    (* 184 return self._call(...) *)
| CTry                      (* 93  try: *)
| CGet                      (* 94      self.conn *)
| CExc                      (* 95  except AttributeError: *)
| CRun                      (* 96      self.run() *)
(* run(): 84-90 *)
| RAcq                      (* 85  with self.prepare_lock: *)
| RAcqW                     (* 85  ... blocked in acquire *)
| RTest                     (* 86  if self.prepare_thread:                    [fix_f3 = false] *)
| RJoin                     (* 87      self.prepare_thread.join()             [fix_f3 = false] *)
| RRead                     (* 86  thread = self.prepare_thread               [fix_f3 = true] *)
| RTestL (l : option nat)   (* 87  if thread:                                 [fix_f3 = true] *)
| RJoinL (h : nat)          (* 88      thread.join()                          [fix_f3 = true] *)
| RJoinW (h : nat)          (* blocked in join of starter h *)
| RHas                      (* 89  if not hasattr(self, 'conn'): *)
| RCallRun                  (* 90      self._run() *)
| RPopen (a : nat)          (* _run 53  self.proc = Popen(args, env=env)      a = addr of this _run *)
| RConnect (a : nat)        (* _run 58  self.conn = Client(addr)  (retry loop 56-65) *)
| RRel                      (* 85  with-exit: release *)
| RRelExc (e : exn)         (* 85  with-exit while e propagates *)
| CSend                     (* 98  self.conn.send_bytes(dumps((name, args, kwargs))) *)
| CRecv                     (* 99  result, is_ok = loads(self.conn.recv_bytes()) *)
| CIsOk                     (* 101 if is_ok: *)
| CRet                      (* 102     return result *)
(* close(): 186-196 *)
| KTry                      (* 189 try: *)
| KGet                      (* 190     self.conn *)
| KExc                      (* 191 except AttributeError: *)
| KPass                     (* 192     pass *)
| KSend                     (* 194 self.conn.send_bytes(dumps(('close', (), {})[, 2])) *)
| KClose                    (* 195 self.conn.close() *)
| KDel.                     (* 196 del self.conn *)

(* the starter thread (_threaded_run: 67-71) *)
Inductive sstatus :=
| SUnborn                   (* no such thread yet *)
| SNew                      (* Thread object created (81), not started *)
| S68                       (* 68  try: *)
| S69                       (* 69      self._run() *)
| SPopen (a : nat)          (* _run 53 *)
| SConnect (a : nat)        (* _run 58 *)
| S71 (e : option exn)      (* 71  finally: self.prepare_thread = None   (e = exception in flight) *)
| SDone (e : option exn).   (* thread finished (e = exception that killed it) *)

Record shared := {
  lock : option nat;          (* Environment.prepare_lock: owner (client index) *)
  handle : option nat;        (* Environment.prepare_thread: starter index *)
  conn : option conn_st;      (* Environment.conn (absent = attribute does not exist) *)
  launches : nat;             (* successful Popen calls = server processes created *)
  popens : nat;               (* Popen calls (index into o_popen) *)
  attempts : nat;             (* Client(addr) calls (index into o_conn) *)
  connects : nat;             (* ghost: successful Client(addr) calls *)
  failed : nat;               (* ghost: launches abandoned with the timeout exception *)
  epoch : nat;                (* ghost: completed  del self.conn  (sessions closed) *)
  inflight : nat;             (* ghost: launched, not yet connected / abandoned *)
  naddr : nat;                (* arbitrary_address() calls so far (remote.py:38-41): every call a new address *)
  srv_addrs : list nat        (* listener address given to each launched server, newest first *)
}.

Definition set_lock v s := {| lock := v; handle := handle s; conn := conn s; launches := launches s;
  popens := popens s; attempts := attempts s; connects := connects s; failed := failed s;
  epoch := epoch s; inflight := inflight s; naddr := naddr s; srv_addrs := srv_addrs s |}.
Definition set_handle v s := {| lock := lock s; handle := v; conn := conn s; launches := launches s;
  popens := popens s; attempts := attempts s; connects := connects s; failed := failed s;
  epoch := epoch s; inflight := inflight s; naddr := naddr s; srv_addrs := srv_addrs s |}.
Definition set_conn v s := {| lock := lock s; handle := handle s; conn := v; launches := launches s;
  popens := popens s; attempts := attempts s; connects := connects s; failed := failed s;
  epoch := epoch s; inflight := inflight s; naddr := naddr s; srv_addrs := srv_addrs s |}.

(* addr = arbitrary_address(...) at the top of _run: a new address on every call *)
Definition alloc_addr s := {| lock := lock s; handle := handle s; conn := conn s; launches := launches s;
  popens := popens s; attempts := attempts s; connects := connects s; failed := failed s;
  epoch := epoch s; inflight := inflight s; naddr := S (naddr s); srv_addrs := srv_addrs s |}.

Inductive outcome :=
| Goto (p : pc)     (* the operation continues at p *)
| Done              (* the operation returned *)
| Answer            (* the call returned a reply *)
| Raise (e : exn).  (* the operation ended with an exception in the caller *)

(* Popen (remote.py:53) *)
Definition do_popen (o : oracle) (a : nat) (s : shared) : shared * bool :=
  if o_popen o (popens s)
  then ({| lock := lock s; handle := handle s; conn := conn s; launches := S (launches s);
           popens := S (popens s); attempts := attempts s; connects := connects s;
           failed := failed s; epoch := epoch s; inflight := S (inflight s); naddr := naddr s; srv_addrs := a :: srv_addrs s |}, true)
  else ({| lock := lock s; handle := handle s; conn := conn s; launches := launches s;
           popens := S (popens s); attempts := attempts s; connects := connects s;
           failed := failed s; epoch := epoch s; inflight := inflight s; naddr := naddr s; srv_addrs := srv_addrs s |}, false).

(* one Client(addr) attempt of the loop remote.py:56-65 *)
Definition do_connect (o : oracle) (a : nat) (s : shared) : shared * conn_outcome :=
  match o_conn o (attempts s) with
  | COk => ({| lock := lock s; handle := handle s; conn := Some (fresh_conn a); launches := launches s;
               popens := popens s; attempts := S (attempts s); connects := S (connects s);
               failed := failed s; epoch := epoch s; inflight := pred (inflight s); naddr := naddr s; srv_addrs := srv_addrs s |}, COk)
  | CRetry => ({| lock := lock s; handle := handle s; conn := conn s; launches := launches s;
               popens := popens s; attempts := S (attempts s); connects := connects s;
               failed := failed s; epoch := epoch s; inflight := inflight s; naddr := naddr s; srv_addrs := srv_addrs s |}, CRetry)
  | CTimeout => ({| lock := lock s; handle := handle s; conn := conn s; launches := launches s;
               popens := popens s; attempts := S (attempts s); connects := connects s;
               failed := S (failed s); epoch := epoch s; inflight := pred (inflight s); naddr := naddr s; srv_addrs := srv_addrs s |}, CTimeout)
  end.

Definition upd {A} (f : nat -> A) (i : nat) (v : A) : nat -> A :=
  fun j => if Nat.eqb j i then v else f j.

Definition finished (st : nat -> sstatus) (h : nat) : bool :=
  match st h with SDone _ => true | _ => false end.

Definition is_some {A} (x : option A) : bool := match x with Some _ => true | None => false end.

(* result of one line of a client thread: new shared state, starter table, number of starters *)
Definition cres := (shared * (nat -> sstatus) * nat * outcome)%type.

Definition keep (s : shared) (st : nat -> sstatus) (n : nat) (out : outcome) : option cres :=
  Some (s, st, n, out).

(* one source line of client thread i at pc p *)
Definition cstep (c : cfg) (o : oracle) (i : nat) (s : shared) (st : nat -> sstatus) (n : nat)
                 (p : pc) : option cres :=
  match p with
  (* ---- prepare() ---- *)
  | PAcq => match lock s with
            | None => keep (set_lock (Some i) s) st n (Goto PTestH)
            | Some _ => keep s st n (Goto PAcqW) end
  | PAcqW => match lock s with
            | None => keep (set_lock (Some i) s) st n (Goto PTestH)
            | Some _ => None end
  | PTestH => keep s st n (Goto (if is_some (handle s) then PRet1 else PHas))
  | PRet1 => keep s st n (Goto PRel)
  | PHas => keep s st n (Goto (if is_some (conn s) then PRet2 else PMk))
  | PRet2 => keep s st n (Goto PRel)
  | PMk => keep (set_handle (Some n) s) (upd st n SNew) (S n) (Goto PStart)
  | PStart => match handle s with
              | None => keep s st n (Goto (PRelExc AttrErr))
              | Some h => match st h with
                          | SNew => keep s (upd st h S68) n (Goto PRel)
                          | _ => keep s st n (Goto (PRelExc RuntimeErr)) end
              end
  | PRel => keep (set_lock None s) st n Done
  | PRelExc e => keep (set_lock None s) st n (Raise e)
  (* ---- wrapper + _call() ---- *)
  | CEntry => keep s st n (Goto CTry)
  | CTry => keep s st n (Goto CGet)
  | CGet => keep s st n (Goto (if is_some (conn s) then CSend else CExc))
  | CExc => keep s st n (Goto CRun)
  | CRun => keep s st n (Goto RAcq)
  (* ---- run() ---- *)
  | RAcq => match lock s with
            | None => keep (set_lock (Some i) s) st n (Goto (if fix_f3 c then RRead else RTest))
            | Some _ => keep s st n (Goto RAcqW) end
  | RAcqW => match lock s with
            | None => keep (set_lock (Some i) s) st n (Goto (if fix_f3 c then RRead else RTest))
            | Some _ => None end
  | RTest => keep s st n (Goto (if is_some (handle s) then RJoin else RHas))
  | RJoin => match handle s with
             | None => keep s st n (Goto (RRelExc AttrErr))       (* F3: 'NoneType' has no attribute 'join' *)
             | Some h => keep s st n (Goto (if finished st h then RHas else RJoinW h))
             end
  | RRead => keep s st n (Goto (RTestL (handle s)))
  | RTestL l => keep s st n (Goto (match l with Some h => RJoinL h | None => RHas end))
  | RJoinL h => keep s st n (Goto (if finished st h then RHas else RJoinW h))
  | RJoinW h => if finished st h then keep s st n (Goto RHas) else None
  | RHas => keep s st n (Goto (if is_some (conn s) then RRel else RCallRun))
  | RCallRun => keep (alloc_addr s) st n (Goto (RPopen (naddr s)))
  | RPopen a => let (s', ok) := do_popen o a s in
              keep s' st n (Goto (if ok then RConnect a else RRelExc LaunchErr))
  | RConnect a => let (s', r) := do_connect o a s in
                keep s' st n (Goto (match r with COk => RRel | CRetry => RConnect a
                                               | CTimeout => RRelExc TimeoutErr end))
  | RRel => keep (set_lock None s) st n (Goto CSend)
  | RRelExc e => keep (set_lock None s) st n (Raise e)
  | CSend => match conn s with
             | None => keep s st n (Raise AttrErr)
             | Some k => if c_closed k then keep s st n (Raise OSErr)
                         else keep (set_conn (Some {| c_closed := false; c_gotclose := c_gotclose k;
                                      c_pending := if c_gotclose k then c_pending k else S (c_pending k);
                                      c_addr := c_addr k |}) s)
                                   st n (Goto CRecv)
             end
  | CRecv => match conn s with
             | None => keep s st n (Raise AttrErr)
             | Some k => if c_closed k then keep s st n (Raise OSErr)
                         else match c_pending k with
                              | S m => keep (set_conn (Some {| c_closed := false; c_gotclose := c_gotclose k;
                                                               c_pending := m; c_addr := c_addr k |}) s) st n (Goto CIsOk)
                              | O => keep s st n (Raise (if c_gotclose k then EOFErr else HangErr))
                              end
             end
  | CIsOk => keep s st n (Goto CRet)
  | CRet => keep s st n Answer
  (* ---- close() ---- *)
  | KTry => keep s st n (Goto KGet)
  | KGet => keep s st n (Goto (if is_some (conn s) then KSend else KExc))
  | KExc => keep s st n (Goto KPass)
  | KPass => keep s st n Done
  | KSend => match conn s with
             | None => keep s st n (Raise AttrErr)
             | Some k => if negb (fix_f2 c) then keep s st n (Raise TypeErr)      (* F2 *)
                         else if c_closed k then keep s st n (Raise OSErr)
                         else keep (set_conn (Some {| c_closed := false; c_gotclose := true;
                                                      c_pending := c_pending k; c_addr := c_addr k |}) s) st n (Goto KClose)
             end
  | KClose => match conn s with
              | None => keep s st n (Raise AttrErr)
              | Some k => keep (set_conn (Some {| c_closed := true; c_gotclose := c_gotclose k;
                                                  c_pending := c_pending k; c_addr := c_addr k |}) s) st n (Goto KDel)
              end
  | KDel => match conn s with
            | None => keep s st n (Raise AttrErr)
            | Some _ => keep {| lock := lock s; handle := handle s; conn := None; launches := launches s;
                                popens := popens s; attempts := attempts s; connects := connects s;
                                failed := failed s; epoch := S (epoch s); inflight := inflight s; naddr := naddr s; srv_addrs := srv_addrs s |}
                             st n Done
            end
  end.

(* one source line of the starter thread (remote.py:67-71); it never touches the lock *)
Definition sstep (o : oracle) (s : shared) (status : sstatus) : option (shared * sstatus) :=
  match status with
  | SUnborn | SNew | SDone _ => None
  | S68 => Some (s, S69)
  | S69 => Some (alloc_addr s, SPopen (naddr s))
  | SPopen a => let (s', ok) := do_popen o a s in Some (s', if ok then SConnect a else S71 (Some LaunchErr))
  | SConnect a => let (s', r) := do_connect o a s in
                Some (s', match r with COk => S71 None | CRetry => SConnect a
                                     | CTimeout => S71 (Some TimeoutErr) end)
  | S71 e => Some (set_handle None s, SDone e)
  end.

Record cthread := { t_script : list op;     (* operations still to run; head = current *)
                    t_pc : pc;
                    t_exns : list exn;      (* exceptions its operations ended with, in order *)
                    t_answers : nat }.      (* calls that returned a reply *)

Definition start_pc (o : op) : pc :=
  match o with Prepare => PAcq | Call => CEntry | Close => KTry end.

Definition first_pc (l : list op) : pc :=
  match l with [] => PAcq | o :: _ => start_pc o end.

Definition next_op (t : cthread) (ex : list exn) (ans : nat) : cthread :=
  {| t_script := tl (t_script t); t_pc := first_pc (tl (t_script t)); t_exns := ex; t_answers := ans |}.

Definition advance (t : cthread) (out : outcome) : cthread :=
  match out with
  | Goto p => {| t_script := t_script t; t_pc := p; t_exns := t_exns t; t_answers := t_answers t |}
  | Done => next_op t (t_exns t) (t_answers t)
  | Answer => next_op t (t_exns t) (S (t_answers t))
  | Raise e => next_op t (t_exns t ++ [e]) (t_answers t)
  end.

Record state := { sh : shared; nclients : nat; clients : nat -> cthread;
                  nstarters : nat; starters : nat -> sstatus }.

Inductive tid := Cl (i : nat) | St (h : nat).

(* None = the thread is blocked, finished or does not exist *)
Definition step (c : cfg) (o : oracle) (s : state) (t : tid) : option state :=
  match t with
  | Cl i => let th := clients s i in
           match t_script th with
           | [] => None
           | _ :: _ =>
             match cstep c o i (sh s) (starters s) (nstarters s) (t_pc th) with
             | None => None
             | Some (sh', st', n', out) =>
                 Some {| sh := sh'; nclients := nclients s; clients := upd (clients s) i (advance th out);
                         nstarters := n'; starters := st' |}
             end
           end
  | St h => match sstep o (sh s) (starters s h) with
           | None => None
           | Some (sh', status') =>
               Some {| sh := sh'; nclients := nclients s; clients := clients s;
                       nstarters := nstarters s; starters := upd (starters s) h status' |}
           end
  end.

(* scheduling a disabled thread is a stutter *)
Definition step_or_stay (c : cfg) (o : oracle) (s : state) (t : tid) : state :=
  match step c o s t with Some s' => s' | None => s end.

Definition run (c : cfg) (o : oracle) (sched : list tid) (s : state) : state :=
  fold_left (step_or_stay c o) sched s.

Definition init_shared : shared :=
  {| lock := None; handle := None; conn := None; launches := 0; popens := 0; attempts := 0;
     connects := 0; failed := 0; epoch := 0; inflight := 0; naddr := 0; srv_addrs := [] |}.

Definition init_thread (l : list op) : cthread :=
  {| t_script := l; t_pc := first_pc l; t_exns := []; t_answers := 0 |}.

(* client i runs scripts[i]; any number of clients *)
Definition init (scripts : list (list op)) : state :=
  {| sh := init_shared; nclients := length scripts;
     clients := fun i => init_thread (nth i scripts []);
     nstarters := 0; starters := fun _ => SUnborn |}.

Definition enabled (c : cfg) (o : oracle) (s : state) (t : tid) : bool := is_some (step c o s t).

(* ------------------------------------------------------------------------------------------
   Observation compared with the real class after every step (harness/props/c16_sched.py).
   Location = (function, line offset from its def line, kind); kind 0 = about to execute the
   line, 1 = blocked on the lock, 2 = blocked in join, 3 = inside _run before Popen, 4 = inside
   _run before Client, 5 = Thread object not started, 6 = finished. *)
Definition exn_code (e : exn) : N :=
  match e with AttrErr => 1 | TypeErr => 2 | OSErr => 3 | EOFErr => 4 | HangErr => 5
             | LaunchErr => 6 | TimeoutErr => 7 | RuntimeErr => 8 end%N.

Definition pc_loc (c : cfg) (p : pc) : N * N * N :=
  let f3 := (if fix_f3 c then 1 else 0)%N in
  match p with
  | PAcq => (1, 1, 0) | PAcqW => (1, 1, 1) | PTestH => (1, 2, 0) | PRet1 => (1, 3, 0)
  | PHas => (1, 5, 0) | PRet2 => (1, 6, 0) | PMk => (1, 8, 0) | PStart => (1, 9, 0)
  | PRel => (1, 1, 0) | PRelExc _ => (1, 1, 0)
  | CEntry => (6, 1, 0) | CTry => (4, 1, 0) | CGet => (4, 2, 0) | CExc => (4, 3, 0) | CRun => (4, 4, 0)
  | RAcq => (2, 1, 0) | RAcqW => (2, 1, 1) | RTest => (2, 2, 0) | RJoin => (2, 3, 0)
  | RRead => (2, 2, 0) | RTestL _ => (2, 3, 0) | RJoinL _ => (2, 4, 0) | RJoinW _ => (2, 3 + f3, 2)
  | RHas => (2, 5 + f3, 0) | RCallRun => (2, 6 + f3, 0) | RPopen _ => (2, 6 + f3, 3)
  | RConnect _ => (2, 6 + f3, 4) | RRel => (2, 1, 0) | RRelExc _ => (2, 1, 0)
  | CSend => (4, 6, 0) | CRecv => (4, 7, 0) | CIsOk => (4, 9, 0) | CRet => (4, 10, 0)
  | KTry => (5, 3, 0) | KGet => (5, 4, 0) | KExc => (5, 5, 0) | KPass => (5, 6, 0)
  | KSend => (5, 8, 0) | KClose => (5, 9, 0) | KDel => (5, 10, 0)
  end%N.

Definition st_loc (x : sstatus) : N * N * N :=
  match x with
  | SUnborn => (0, 0, 7) | SNew => (0, 0, 5) | S68 => (3, 1, 0) | S69 => (3, 2, 0)
  | SPopen _ => (3, 2, 3) | SConnect _ => (3, 2, 4) | S71 _ => (3, 4, 0) | SDone _ => (0, 0, 6)
  end%N.

Definition st_exn (x : sstatus) : N :=
  match x with SDone (Some e) => exn_code e | _ => 0%N end.   (* visible once the thread has died *)

Definition b2N (b : bool) : N := if b then 1%N else 0%N.
Definition optN (x : option nat) : N := match x with None => 0%N | Some k => N.of_nat (S k) end.

Definition obs_client (c : cfg) (o : oracle) (s : state) (i : nat) : list N :=
  let t := clients s i in
  let '(f, off, kind) := match t_script t with [] => (0, 0, 6)%N | _ => pc_loc c (t_pc t) end in
  [N.of_nat (length (t_script t)); f; off; kind; N.of_nat (t_answers t); b2N (enabled c o s (Cl i));
   N.of_nat (length (t_exns t))] ++ map exn_code (t_exns t).

Definition obs_starter (c : cfg) (o : oracle) (s : state) (h : nat) : list N :=
  let x := starters s h in
  let '(f, off, kind) := st_loc x in
  [f; off; kind; b2N (enabled c o s (St h)); st_exn x].

(* listener addresses as the harness sees them: numbered in the order in which they were first
   given to a launched server (the real ones are random socket paths) *)
Definition add_new (l : list nat) (x : nat) : list nat :=
  if existsb (Nat.eqb x) l then l else l ++ [x].
Definition seen_addrs (g : shared) : list nat := fold_left add_new (rev (srv_addrs g)) [].
Fixpoint index_of (x : nat) (l : list nat) : nat :=      (* 1-based; 0 = not there *)
  match l with
  | [] => 0
  | y :: r => if Nat.eqb x y then 1 else match index_of x r with 0 => 0 | S k => S (S k) end
  end.

Definition observe (c : cfg) (o : oracle) (s : state) : list N :=
  let g := sh s in
  [N.of_nat (launches g); N.of_nat (popens g); N.of_nat (attempts g)] ++
  match conn g with
  | None => [0; 0; 0; 0]%N
  | Some k => [1%N; b2N (c_closed k); b2N (c_gotclose k); N.of_nat (c_pending k)]
  end ++
  [optN (handle g); optN (lock g); N.of_nat (nstarters s)] ++
  (* distinct addresses launched on, address of the newest server, address the connection goes to *)
  [N.of_nat (length (seen_addrs g));
   match srv_addrs g with [] => 0%N | a :: _ => N.of_nat (index_of a (seen_addrs g)) end;
   match conn g with None => 0%N | Some k => N.of_nat (index_of (c_addr k) (seen_addrs g)) end] ++
  flat_map (obs_client c o s) (seq 0 (nclients s)) ++
  flat_map (obs_starter c o s) (seq 0 (nstarters s)).

Fixpoint listN_eqb (a b : list N) : bool :=
  match a, b with
  | [], [] => true
  | x :: a', y :: b' => N.eqb x y && listN_eqb a' b'
  | _, _ => false
  end.

(* observations along one schedule (initial state first) *)
Fixpoint trace (c : cfg) (o : oracle) (sched : list tid) (s : state) : list (list N) :=
  observe c o s :: match sched with
                   | [] => []
                   | t :: r => trace c o r (step_or_stay c o s t)
                   end.

(* ------------------------------------------------------------------------------------------
   Correspondence cases.  The harness sends a TREE OF SCHEDULES (numeral-free constructors: Coq
   8.16 elaborates a numeral in ~0.1 ms, a constant in ~0.02 ms, and a case has 10^3-10^5 nodes)
   and ONE number: a digest of the observations it recorded on the real class at every node, in
   pre-order.  Coq recomputes the digest from the model's observations and compares.  The
   traversal is defined here, generic in the accumulator; the harness instantiates it in the
   generated case files with a polynomial hash on primitive 63-bit integers (multiplier
   6364136223846793005, arithmetic modulo 2^63: two runs that differ in one field have different
   digests, differences in several fields cancel only by accident, ~2^-63), so that no file of
   this development depends on the primitive-integer library.  Every observed field must be
   < 64 (checked on both sides, fail closed). *)
Definition obs_small (l : list N) : bool := forallb (fun x => N.ltb x 64) l.

Inductive tidc := c0 | c1 | c2 | c3 | s0 | s1 | s2 | s3 | s4 | s5 | cN (i : nat) | sN (h : nat).

Definition tid_of (t : tidc) : tid :=
  match t with
  | c0 => Cl 0 | c1 => Cl 1 | c2 => Cl 2 | c3 => Cl 3
  | s0 => St 0 | s1 => St 1 | s2 => St 2 | s3 => St 3 | s4 => St 4 | s5 => St 5
  | cN i => Cl i | sN h => St h
  end.

Inductive trie := Nd (kids : kidlist)
with kidlist := KNil | KK (t : tidc) (k : trie) (r : kidlist).

Section Digest.
Variable A : Type.
Variable mixf : A -> list N -> A.      (* fold one observation into the accumulator *)

(* pre-order digest; None = some observed field does not fit the packing (fail closed) *)
Fixpoint digest_trie (c : cfg) (o : oracle) (s : state) (t : trie) (acc : option A) : option A :=
  match t with
  | Nd kids =>
      let l := observe c o s in
      match acc with
      | Some a => if obs_small l then digest_kids c o s kids (Some (mixf a l)) else None
      | None => None
      end
  end
with digest_kids (c : cfg) (o : oracle) (s : state) (ks : kidlist) (acc : option A) : option A :=
  match ks with
  | KNil => acc
  | KK t k r => digest_kids c o s r (digest_trie c o (step_or_stay c o s (tid_of t)) k acc)
  end.

(* a correspondence case: configuration, oracle, scripts, schedule tree *)
Definition case_digest (a0 : A) (x : cfg * oracle * list (list op) * trie) : option A :=
  let '(c, o, scripts, t) := x in digest_trie c o (init scripts) t (Some a0).
End Digest.

(* ------------------------------------------------------------------------------------------
   Server side of one session: supp/server.py __main__ (113-116: ONE listener.accept(), then
   Server.run) and Server.run (71-95): every received message is either an ordinary request
   (answered, loop continues), the close request (conn.close(); break), end of file on the
   connection - the client end was closed or the client process died - (break), or undecodable
   bytes (logged; break).  After the loop the process ends; it never goes back to accept(). *)
Inductive srv_event := EvRequest | EvClose | EvEof | EvGarbage.

Inductive srv_state :=
| SrvServing (answered : nat)     (* inside the loop of Server.run *)
| SrvExited (answered : nat).     (* the process has ended *)

Definition srv_step (st : srv_state) (e : srv_event) : srv_state :=
  match st with
  | SrvServing n => match e with EvRequest => SrvServing (S n) | _ => SrvExited n end
  | SrvExited n => SrvExited n
  end.

(* the connection has been accepted (exactly once); then the events arrive in order *)
Definition srv_run (evs : list srv_event) : srv_state := fold_left srv_step evs (SrvServing 0).

Definition srv_exited (st : srv_state) : bool := match st with SrvExited _ => true | _ => false end.
Definition srv_answered (st : srv_state) : nat := match st with SrvServing n | SrvExited n => n end.

(* a real-subprocess observation: events sent, did the process exit, replies received *)
Definition check_server_case (x : list srv_event * bool * nat) : bool :=
  let '(evs, exited, replies) := x in
  Bool.eqb (srv_exited (srv_run evs)) exited && Nat.eqb (srv_answered (srv_run evs)) replies.

