(* The MessagePack specification (github.com/msgpack/msgpack/blob/master/spec.md) as a relation
   between values of the data model and byte strings, admitting EVERY legal format of a value
   (also the non-minimal ones: 5 may be written 05, cc 05, cd 00 05, ..., d3 00..05), and an
   independent decoder [spec_decode] written from the specification's format table.
   Definitions only; proofs in Proofs/MsgpackSpecProofs.v.

   Ext types: the specification's type is a signed byte, negative types being reserved for
   predefined extensions; the data model of this development (and of umsgpack.Ext) is the
   application range 0..127. *)
From Coq Require Import List Bool Arith NArith ZArith.
Import ListNotations.
From Supp Require Import Model.Msgpack.
Local Open Scope N_scope.

(* ------------------------------------------------------------------------------------------ *)
(* int format family: positive fixint, negative fixint, uint 8/16/32/64, int 8/16/32/64        *)
(* ------------------------------------------------------------------------------------------ *)

Inductive IntEnc : Z -> bytes -> Prop :=
| IE_posfix z : (0 <= z < 128)%Z -> IntEnc z [Z.to_N z]
| IE_negfix z : (-32 <= z < 0)%Z -> IntEnc z [Z.to_N (z + 256)]
| IE_u8 z : (0 <= z < 256)%Z -> IntEnc z (204 :: be 1 (Z.to_N z))
| IE_u16 z : (0 <= z < 65536)%Z -> IntEnc z (205 :: be 2 (Z.to_N z))
| IE_u32 z : (0 <= z < 4294967296)%Z -> IntEnc z (206 :: be 4 (Z.to_N z))
| IE_u64 z : (0 <= z < 18446744073709551616)%Z -> IntEnc z (207 :: be 8 (Z.to_N z))
| IE_i8 z : (-128 <= z < 128)%Z -> IntEnc z (208 :: be 1 (Z.to_N (z mod 256)))
| IE_i16 z : (-32768 <= z < 32768)%Z -> IntEnc z (209 :: be 2 (Z.to_N (z mod 65536)))
| IE_i32 z : (-2147483648 <= z < 2147483648)%Z -> IntEnc z (210 :: be 4 (Z.to_N (z mod 4294967296)))
| IE_i64 z : (-9223372036854775808 <= z < 9223372036854775808)%Z ->
             IntEnc z (211 :: be 8 (Z.to_N (z mod 18446744073709551616))).

(* headers: [XHdr n h] - h is a legal header for a payload of n bytes / n elements *)
Inductive StrHdr : N -> bytes -> Prop :=
| SH_fix n : n < 32 -> StrHdr n [160 + n]
| SH_8 n : n < 256 -> StrHdr n (217 :: be 1 n)
| SH_16 n : n < 65536 -> StrHdr n (218 :: be 2 n)
| SH_32 n : n < 4294967296 -> StrHdr n (219 :: be 4 n).

Inductive BinHdr : N -> bytes -> Prop :=
| BH_8 n : n < 256 -> BinHdr n (196 :: be 1 n)
| BH_16 n : n < 65536 -> BinHdr n (197 :: be 2 n)
| BH_32 n : n < 4294967296 -> BinHdr n (198 :: be 4 n).

Inductive ArrHdr : N -> bytes -> Prop :=
| AH_fix n : n < 16 -> ArrHdr n [144 + n]
| AH_16 n : n < 65536 -> ArrHdr n (220 :: be 2 n)
| AH_32 n : n < 4294967296 -> ArrHdr n (221 :: be 4 n).

Inductive MapHdr : N -> bytes -> Prop :=
| MH_fix n : n < 16 -> MapHdr n [128 + n]
| MH_16 n : n < 65536 -> MapHdr n (222 :: be 2 n)
| MH_32 n : n < 4294967296 -> MapHdr n (223 :: be 4 n).

Inductive ExtHdr : N -> bytes -> Prop :=
| XH_f1 : ExtHdr 1 [212]
| XH_f2 : ExtHdr 2 [213]
| XH_f4 : ExtHdr 4 [214]
| XH_f8 : ExtHdr 8 [215]
| XH_f16 : ExtHdr 16 [216]
| XH_8 n : n < 256 -> ExtHdr n (199 :: be 1 n)
| XH_16 n : n < 65536 -> ExtHdr n (200 :: be 2 n)
| XH_32 n : n < 4294967296 -> ExtHdr n (201 :: be 4 n).

(* ------------------------------------------------------------------------------------------ *)
(* Enc v b : b is a MessagePack serialisation of v                                             *)
(* ------------------------------------------------------------------------------------------ *)

Inductive Enc : value -> bytes -> Prop :=
| E_nil : Enc Nil [192]
| E_false : Enc (Bool false) [194]
| E_true : Enc (Bool true) [195]
| E_int z b : IntEnc z b -> Enc (Int z) b
| E_f64 x : x < p64 -> Enc (F64 x) (203 :: be 8 x)
| E_f32 x : x < p32 -> Enc (F64 (widen32 x)) (202 :: be 4 x)   (* float 32, read as a double *)
| E_str s h : StrHdr (len s) h -> Enc (Str s) (h ++ s)
| E_bin s h : BinHdr (len s) h -> Enc (Bin s) (h ++ s)
| E_ext ty d h : ty < 128 -> ExtHdr (len d) h -> Enc (Ext ty d) (h ++ ty :: d)
| E_arr l h b : ArrHdr (len l) h -> EncList l b -> Enc (Arr l) (h ++ b)
| E_map kvs h b : MapHdr (len kvs) h -> EncPairs kvs b -> Enc (Map kvs) (h ++ b)
with EncList : list value -> bytes -> Prop :=
| EL_nil : EncList [] []
| EL_cons v l b bs : Enc v b -> EncList l bs -> EncList (v :: l) (b ++ bs)
with EncPairs : list (value * value) -> bytes -> Prop :=
| EP_nil : EncPairs [] []
| EP_cons k v l bk bv bs :
    Enc k bk -> Enc v bv -> EncPairs l bs -> EncPairs ((k, v) :: l) (bk ++ bv ++ bs).

Scheme Enc_mind := Minimality for Enc Sort Prop
  with EncList_mind := Minimality for EncList Sort Prop
  with EncPairs_mind := Minimality for EncPairs Sort Prop.
Combined Scheme Enc_mutind from Enc_mind, EncList_mind, EncPairs_mind.

(* ------------------------------------------------------------------------------------------ *)
(* An independent decoder, from the format table of the specification                          *)
(* ------------------------------------------------------------------------------------------ *)

Inductive fmt :=
| PosFixint | FixMap | FixArray | FixStr | NilF | NeverUsed | FalseF | TrueF
| Bin8 | Bin16 | Bin32 | Ext8 | Ext16 | Ext32 | Float32 | Float64
| Uint8 | Uint16 | Uint32 | Uint64 | Int8 | Int16 | Int32 | Int64
| FixExt1 | FixExt2 | FixExt4 | FixExt8 | FixExt16 | Str8 | Str16 | Str32
| Array16 | Array32 | Map16 | Map32 | NegFixint.

(* formats 0xc0 .. 0xdf in the order of the specification's overview table *)
Definition single_byte_formats : list fmt :=
  [NilF; NeverUsed; FalseF; TrueF; Bin8; Bin16; Bin32; Ext8; Ext16; Ext32; Float32; Float64;
   Uint8; Uint16; Uint32; Uint64; Int8; Int16; Int32; Int64;
   FixExt1; FixExt2; FixExt4; FixExt8; FixExt16; Str8; Str16; Str32; Array16; Array32; Map16; Map32].

(* first byte -> format: 0xxxxxxx, 1000xxxx, 1001xxxx, 101xxxxx, 111xxxxx, else the table
   (anything that is not a byte is no format) *)
Definition fmt_of (c : N) : fmt :=
  if c / 128 =? 0 then PosFixint
  else if c / 16 =? 8 then FixMap
  else if c / 16 =? 9 then FixArray
  else if c / 32 =? 5 then FixStr
  else if c / 32 =? 7 then NegFixint
  else nth (N.to_nat (c - 192)) single_byte_formats NeverUsed.

(* big-endian value of a byte string, most significant byte first *)
Fixpoint be_val (bs : bytes) : N :=
  match bs with
  | [] => 0
  | b :: r => b * 256 ^ (len r) + be_val r
  end.

(* the first k bytes (k small: 1, 2, 4, 8) *)
Fixpoint take (k : nat) (bs : bytes) : option (bytes * bytes) :=
  match k with
  | O => Some ([], bs)
  | S k' => match bs with
            | [] => None
            | b :: r => match take k' r with
                        | None => None
                        | Some (x, y) => Some (b :: x, y)
                        end
            end
  end.

(* a k-byte big-endian unsigned number *)
Definition num (k : nat) (bs : bytes) : option (N * bytes) :=
  match take k bs with
  | None => None
  | Some (x, r) => Some (be_val x, r)
  end.

(* two's complement value of a [bits]-bit pattern *)
Definition twos (bits : N) (u : N) : Z :=
  ((Z.of_N u + 2 ^ (Z.of_N bits - 1)) mod 2 ^ (Z.of_N bits) - 2 ^ (Z.of_N bits - 1))%Z.

(* an n-byte payload *)
Definition payload (n : N) (bs : bytes) : option (bytes * bytes) :=
  if len bs <? n then None
  else Some (firstn (N.to_nat n) bs, skipn (N.to_nat n) bs).

Definition bind {A B} (o : option A) (f : A -> option B) : option B :=
  match o with None => None | Some a => f a end.

Fixpoint spec_items (d : bytes -> option (value * bytes)) (j : nat) (n : N) (bs : bytes)
  : option (list value * bytes) :=
  if n =? 0 then Some ([], bs)
  else match j with
       | O => None
       | S j' =>
           bind (d bs) (fun vr =>
           bind (spec_items d j' (n - 1) (snd vr)) (fun lr =>
           Some (fst vr :: fst lr, snd lr)))
       end.

Fixpoint spec_pairs (d : bytes -> option (value * bytes)) (j : nat) (n : N) (bs : bytes)
  : option (list (value * value) * bytes) :=
  if n =? 0 then Some ([], bs)
  else match j with
       | O => None
       | S j' =>
           bind (d bs) (fun kr =>
           bind (d (snd kr)) (fun vr =>
           bind (spec_pairs d j' (n - 1) (snd vr)) (fun lr =>
           Some ((fst kr, fst vr) :: fst lr, snd lr))))
       end.

Fixpoint spec_dec (f : nat) (bs : bytes) {struct f} : option (value * bytes) :=
  match f with
  | O => None
  | S f' =>
      match bs with
      | [] => None
      | c :: r =>
          let uint k := bind (num k r) (fun ur => Some (Int (Z.of_N (fst ur)), snd ur)) in
          let sint k bits := bind (num k r) (fun ur => Some (Int (twos bits (fst ur)), snd ur)) in
          let str n r := bind (payload n r) (fun sr => Some (Str (fst sr), snd sr)) in
          let bin n r := bind (payload n r) (fun sr => Some (Bin (fst sr), snd sr)) in
          let ext n r :=
            bind (num 1 r) (fun tr =>
            if fst tr <? 128 then bind (payload n (snd tr)) (fun dr => Some (Ext (fst tr) (fst dr), snd dr))
            else None) in
          let arr n r := bind (spec_items (spec_dec f') f' n r) (fun lr => Some (Arr (fst lr), snd lr)) in
          let map n r := bind (spec_pairs (spec_dec f') f' n r) (fun lr => Some (Map (fst lr), snd lr)) in
          match fmt_of c with
          | PosFixint => Some (Int (Z.of_N c), r)
          | NegFixint => Some (Int (Z.of_N c - 256), r)
          | NilF => Some (Nil, r)
          | NeverUsed => None
          | FalseF => Some (Bool false, r)
          | TrueF => Some (Bool true, r)
          | Uint8 => uint 1%nat | Uint16 => uint 2%nat | Uint32 => uint 4%nat | Uint64 => uint 8%nat
          | Int8 => sint 1%nat 8 | Int16 => sint 2%nat 16 | Int32 => sint 4%nat 32 | Int64 => sint 8%nat 64
          | Float32 => bind (num 4 r) (fun ur => Some (F64 (widen32 (fst ur)), snd ur))
          | Float64 => bind (num 8 r) (fun ur => Some (F64 (fst ur), snd ur))
          | FixStr => str (c - 160) r
          | Str8 => bind (num 1 r) (fun nr => str (fst nr) (snd nr))
          | Str16 => bind (num 2 r) (fun nr => str (fst nr) (snd nr))
          | Str32 => bind (num 4 r) (fun nr => str (fst nr) (snd nr))
          | Bin8 => bind (num 1 r) (fun nr => bin (fst nr) (snd nr))
          | Bin16 => bind (num 2 r) (fun nr => bin (fst nr) (snd nr))
          | Bin32 => bind (num 4 r) (fun nr => bin (fst nr) (snd nr))
          | FixExt1 => ext 1 r | FixExt2 => ext 2 r | FixExt4 => ext 4 r
          | FixExt8 => ext 8 r | FixExt16 => ext 16 r
          | Ext8 => bind (num 1 r) (fun nr => ext (fst nr) (snd nr))
          | Ext16 => bind (num 2 r) (fun nr => ext (fst nr) (snd nr))
          | Ext32 => bind (num 4 r) (fun nr => ext (fst nr) (snd nr))
          | FixArray => arr (c - 144) r
          | Array16 => bind (num 2 r) (fun nr => arr (fst nr) (snd nr))
          | Array32 => bind (num 4 r) (fun nr => arr (fst nr) (snd nr))
          | FixMap => map (c - 128) r
          | Map16 => bind (num 2 r) (fun nr => map (fst nr) (snd nr))
          | Map32 => bind (num 4 r) (fun nr => map (fst nr) (snd nr))
          end
      end
  end.

Definition spec_decode (bs : bytes) : option (value * bytes) := spec_dec (S (length bs)) bs.
