(* C15 - remote calls are transparent and failures are isolated.

   IMPL: the request/reply protocol of supp, transliterated:
     Server.process            supp/server.py:38-49
     Server.run (the loop)     supp/server.py:71-95
     Environment._call         supp/remote.py:92-104
   over a pair of FIFO queues of byte messages (the two directions of the connection).
   REF: the in-process API threaded through the request list ([ref_run], [inproc_trace]).

   Definitions only; the lemmas are in Proofs/RpcProofs.v, the theorem statements in Props/C15.v.

   Everything the protocol logic cannot see is a field of the record [world] (the section variable
   [W]): the in-process functions, the Python value <-> message value conversion done by umsgpack
   and the byte codec.  The facts assumed about them are the record [world_ok] (Proofs file); a
   concrete world built from a table of recorded outcomes ([concrete_world], end of this file) is
   what the correspondence run evaluates, and it satisfies [world_ok] (Example in Props/C15.v). *)
From Coq Require Import List Bool Arith ZArith NArith.
Import ListNotations.

(* What a call of  getattr(self, name)( *args, **kwargs)  does (server.py:42), seen from outside:
   it returns a value, raises an exception that `except Exception` catches (class name, str(e)),
   or raises a BaseException that is not an Exception (SystemExit, KeyboardInterrupt,
   GeneratorExit): that one is NOT caught at server.py:43 and leaves Server.run.
   Unknown method (AttributeError from getattr) and wrong arguments (TypeError from the call) are
   ordinary [Raise] outcomes: both happen inside the try block. *)
Inductive outcome (V C T : Type) : Type :=
| Ret (v : V)
| Raise (c : C) (m : T)
| Escape.
Arguments Ret {V C T} v.
Arguments Raise {V C T} c m.
Arguments Escape {V C T}.

(* What the caller of Environment._call observes. *)
Inductive obs (V T : Type) : Type :=
| Returned (v : V)        (* remote.py:102  return result *)
| Raised (m : T)          (* remote.py:104  raise Exception(result[1]) *)
| LocalError              (* remote.py:98   dumps((name, args, kwargs)) raised in the client: nothing was sent *)
| ConnDead                (* send_bytes / recv_bytes raised: the server end is closed (EOFError, BrokenPipeError) *)
| Blocked                 (* recv_bytes would wait for ever: server running, nothing to read, nothing to serve *)
| BadReply.               (* remote.py:99   the reply could not be decoded / unpacked *)
Arguments Returned {V T} v.
Arguments Raised {V T} m.
Arguments LocalError {V T}.
Arguments ConnDead {V T}.
Arguments Blocked {V T}.
Arguments BadReply {V T}.

Record world : Type := {
  pstate : Type;     (* Server.project (and whatever else the in-process functions depend on) *)
  request : Type;    (* a call made through the client: (name, args, kwargs) *)
  pyval : Type;      (* Python values *)
  wire : Type;       (* MessagePack data model (C14: Msgpack.value) *)
  bytes : Type;      (* one framed message of the connection *)
  cls : Type;        (* exception class names *)
  text : Type;       (* str *)
  (* REF: the in-process function  Server(None).<name>( *args, **kwargs)  on the caller's arguments *)
  api : pstate -> request -> outcome pyval cls text * pstate;
  (* server.py:42 applied to the DECODED message (tuples have arrived as lists) *)
  serve : pstate -> pyval -> outcome pyval cls text * pstate;
  req_val : request -> pyval;            (* the tuple (name, args, kwargs) of remote.py:98 *)
  is_close : pyval -> bool;              (* server.py:83  args[0] == 'close' *)
  to_msg : pyval -> option wire;         (* umsgpack pack dispatch on the Python type; None = UnsupportedTypeException *)
  of_msg : wire -> pyval;                (* umsgpack unpack: arrays -> list, map keys -> tuples *)
  enc : wire -> option bytes;            (* C14 encode; None = value outside the format (huge int, str not UTF-8 encodable) *)
  dec : bytes -> option wire;            (* C14 decode of one whole message *)
  normalise : pyval -> pyval;            (* "tuples arrive as lists" *)
  reply_val : pyval -> bool -> pyval;    (* the tuple (result, is_ok) of server.py:89 *)
  exc_val : cls -> text -> pyval;        (* the tuple (e.__class__.__name__, str(e)) of server.py:46 *)
  unpair : pyval -> option (pyval * bool);   (* remote.py:99  result, is_ok = ... *)
  exc_text : pyval -> option text;       (* remote.py:104 result[1] *)
  serr_cls : cls;                        (* 'SerializeError'  server.py:91 *)
  serr_text : text                       (* 'Serialize error' server.py:91 *)
}.

Section Rpc.
  Variable W : world.

  Definition outc := outcome (pyval W) (cls W) (text W).
  Definition ob := obs (pyval W) (text W).

  (* umsgpack.dumps / loads on Python values *)
  Definition dumps (v : pyval W) : option (bytes W) :=
    match to_msg W v with Some w => enc W w | None => None end.
  Definition loads (b : bytes W) : option (pyval W) :=
    match dec W b with Some w => Some (of_msg W w) | None => None end.

  (* ---------------------------------------------------------------- system state *)
  Record sys : Type := {
    c2s : list (bytes W);      (* client -> server, FIFO: head = oldest *)
    s2c : list (bytes W);      (* server -> client *)
    running : bool;            (* the `while True` loop of Server.run has not been left *)
    proj : pstate W
  }.

  Definition init (ps : pstate W) : sys := {| c2s := []; s2c := []; running := true; proj := ps |}.

  (* ---------------------------------------------------------------- server *)
  (* server.py:38-49 *)
  Inductive presult : Type := PDone (result : pyval W) (is_ok : bool) | PEscape.

  Definition process (ps : pstate W) (m : pyval W) : presult * pstate W :=
    match serve W ps m with
    | (Ret v, ps') => (PDone v true, ps')                      (* 41-42 *)
    | (Raise c t, ps') => (PDone (exc_val W c t) false, ps')   (* 43-46 *)
    | (Escape, ps') => (PEscape, ps')                          (* not an Exception: propagates *)
    end.

  (* server.py:88-91; None = the fall-back dumps raised as well (propagates out of run) *)
  Definition reply_content (result : pyval W) (is_ok : bool) : option (bytes W) :=
    match dumps (reply_val W result is_ok) with
    | Some b => Some b
    | None => dumps (reply_val W (exc_val W (serr_cls W) (serr_text W)) false)
    end.

  Definition stop (s : sys) (rest : list (bytes W)) (ps : pstate W) : sys :=
    {| c2s := rest; s2c := s2c s; running := false; proj := ps |}.

  (* one iteration of `while True:` server.py:73-95 *)
  Definition server_iter (s : sys) : sys :=
    if negb (running s) then s else
    match c2s s with
    | [] => s                                                   (* 74: poll(1) timed out *)
    | b :: rest =>
        match loads b with                                      (* 76 *)
        | None => stop s rest (proj s)                          (* 79-81: IO error, break *)
        | Some m =>
            if is_close W m then stop s rest (proj s)           (* 83-85 *)
            else
              match process (proj s) m with                     (* 87 *)
              | (PEscape, ps') => stop s rest ps'
              | (PDone r ok, ps') =>
                  match reply_content r ok with                 (* 88-91 *)
                  | None => stop s rest ps'
                  | Some content =>                             (* 92-93 *)
                      {| c2s := rest; s2c := s2c s ++ [content]; running := true; proj := ps' |}
                  end
              end
        end
    end.

  Fixpoint iter (n : nat) (s : sys) : sys :=
    match n with O => s | S n' => iter n' (server_iter s) end.

  (* let the server run until it has nothing left to read (every iteration that finds a message
     consumes it, so |c2s| iterations suffice: lemma drain_done) *)
  Definition drain (s : sys) : sys := iter (length (c2s s)) s.

  (* ---------------------------------------------------------------- client *)
  (* remote.py:98 *)
  Definition client_send (s : sys) (r : request W) : option sys :=
    match dumps (req_val W r) with
    | None => None
    | Some b => Some {| c2s := c2s s ++ [b]; s2c := s2c s; running := running s; proj := proj s |}
    end.

  (* remote.py:99-104 on one received message *)
  Definition decode_reply (b : bytes W) : ob :=
    match loads b with
    | None => BadReply
    | Some v =>
        match unpair W v with
        | None => BadReply
        | Some (res, true) => Returned res
        | Some (res, false) =>
            match exc_text W res with Some m => Raised m | None => BadReply end
        end
    end.

  (* remote.py:99 recv_bytes *)
  Definition client_recv (s : sys) : ob * sys :=
    match s2c s with
    | b :: rest =>
        (decode_reply b, {| c2s := c2s s; s2c := rest; running := running s; proj := proj s |})
    | [] => (if running s then Blocked else ConnDead, s)
    end.

  (* Environment._call, the server being scheduled while the client waits *)
  Definition call (s : sys) (r : request W) : ob * sys :=
    match client_send s r with
    | None => (LocalError, s)
    | Some s1 => client_recv (drain s1)
    end.

  Fixpoint run_calls (s : sys) (rs : list (request W)) : list ob * sys :=
    match rs with
    | [] => ([], s)
    | r :: rest =>
        let '(o, s1) := call s r in
        let '(os, s2) := run_calls s1 rest in
        (o :: os, s2)
    end.

  (* pipelined use of the connection: all requests are sent, the server runs, then the replies
     are read one by one *)
  Fixpoint send_all (s : sys) (rs : list (request W)) : sys :=
    match rs with
    | [] => s
    | r :: rest => match client_send s r with
                   | None => send_all s rest
                   | Some s1 => send_all s1 rest
                   end
    end.

  Fixpoint recv_n (n : nat) (s : sys) : list ob * sys :=
    match n with
    | O => ([], s)
    | S n' => let '(o, s1) := client_recv s in
              let '(os, s2) := recv_n n' s1 in (o :: os, s2)
    end.

  Definition pipeline (s : sys) (rs : list (request W)) : list ob * sys :=
    recv_n (length rs) (drain (send_all s rs)).

  (* arbitrary interleavings of the three parties: the client sends a request, the server runs one
     loop iteration, the client reads one reply (a read that finds nothing while the server runs
     is still blocked: no observation) *)
  Inductive action : Type := ASend (r : request W) | AServe | ARecv.

  Definition sched_step (s : sys) (a : action) : sys * option ob :=
    match a with
    | ASend r => match client_send s r with
                 | Some s1 => (s1, None)
                 | None => (s, Some LocalError)
                 end
    | AServe => (server_iter s, None)
    | ARecv => match s2c s with
               | [] => if running s then (s, None) else (s, Some ConnDead)
               | _ :: _ => let '(o, s1) := client_recv s in (s1, Some o)
               end
    end.

  Fixpoint run_sched (s : sys) (sch : list action) : list ob * sys :=
    match sch with
    | [] => ([], s)
    | a :: rest =>
        let '(s1, o) := sched_step s a in
        let '(os, s2) := run_sched s1 rest in
        (match o with Some x => x :: os | None => os end, s2)
    end.

  Fixpoint sends_of (sch : list action) : list (request W) :=
    match sch with
    | [] => []
    | ASend r :: rest => r :: sends_of rest
    | _ :: rest => sends_of rest
    end.

  (* ---------------------------------------------------------------- REF: the specification *)
  Definition serialisable (v : pyval W) : bool :=
    match dumps v with Some _ => true | None => false end.

  (* what the caller must observe for an in-process outcome (server alive) *)
  Definition expected (o : outc) : ob :=
    match o with
    | Ret v => if serialisable (reply_val W v true) then Returned (normalise W v)
               else Raised (serr_text W)
    | Raise c m => if serialisable (reply_val W (exc_val W c m) false) then Raised m
                   else Raised (serr_text W)
    | Escape => ConnDead
    end.

  (* full reference, including what the protocol does outside the property's domain
     (request not serialisable, 'close', BaseException): state = (server alive, project state) *)
  Definition ref_step (st : bool * pstate W) (r : request W) : ob * (bool * pstate W) :=
    let '(alive, ps) := st in
    if negb (serialisable (req_val W r)) then (LocalError, st)
    else if negb alive then (ConnDead, st)
    else if is_close W (normalise W (req_val W r)) then (ConnDead, (false, ps))
    else
      let '(o, ps') := api W ps r in
      (expected o, (match o with Escape => false | _ => true end, ps')).

  Fixpoint ref_run (st : bool * pstate W) (rs : list (request W)) : list ob * (bool * pstate W) :=
    match rs with
    | [] => ([], st)
    | r :: rest =>
        let '(o, st1) := ref_step st r in
        let '(os, st2) := ref_run st1 rest in
        (o :: os, st2)
    end.

  (* the in-process run: outcomes and final project state of calling the API directly *)
  Fixpoint inproc_trace (ps : pstate W) (rs : list (request W)) : list outc :=
    match rs with
    | [] => []
    | r :: rest => let '(o, ps') := api W ps r in o :: inproc_trace ps' rest
    end.

  Fixpoint inproc_state (ps : pstate W) (rs : list (request W)) : pstate W :=
    match rs with
    | [] => ps
    | r :: rest => inproc_state (snd (api W ps r)) rest
    end.

  (* the property's domain: requests that can be sent, are not the 'close' message, and whose
     in-process execution does not raise a non-Exception BaseException *)
  Definition sendable (r : request W) : Prop :=
    serialisable (req_val W r) = true /\ is_close W (normalise W (req_val W r)) = false.

  Fixpoint benign (ps : pstate W) (rs : list (request W)) : Prop :=
    match rs with
    | [] => True
    | r :: rest => sendable r /\ fst (api W ps r) <> Escape /\ benign (snd (api W ps r)) rest
    end.

  (* What is assumed about the world (used by the proofs only).  Each field is a fact about
     umsgpack / the in-process wrappers, not about the protocol:
     codec_rt      C14 round trip: decoding the encoding of a message value gives it back;
     norm_ok       unpacking what packing produced gives the value with tuples as lists;
     unpair_reply  a 2-tuple (result, is_ok) arrives as something that unpacks into the
                   normalised result and the same flag;
     exc_text_ok   element 1 of the arrived (class name, message) pair is the message;
     serr_ok       the constant fall-back reply of server.py:91 can be serialised;
     serve_api     the in-process functions do not distinguish a request from its arrived form
                   (server.py:54,58 tuple(position); :54-66 nstr(source)). *)
  (* a request that raises in-process leaves the in-process state as it was (e.g. configure:
     server.py:36 assigns self.project only after Project(...) has returned) *)
  Definition raise_pure : Prop :=
    forall ps r c m ps', api W ps r = (Raise c m, ps') -> ps' = ps.

  Record world_ok : Prop := {
    codec_rt : forall v w b, to_msg W v = Some w -> enc W w = Some b -> dec W b = Some w;
    norm_ok : forall v w, to_msg W v = Some w -> of_msg W w = normalise W v;
    unpair_reply : forall v ok,
      unpair W (normalise W (reply_val W v ok)) = Some (normalise W v, ok);
    exc_text_ok : forall c m, exc_text W (normalise W (exc_val W c m)) = Some m;
    serr_ok : serialisable (reply_val W (exc_val W (serr_cls W) (serr_text W)) false) = true;
    serve_api : forall ps r, serve W ps (normalise W (req_val W r)) = api W ps r
  }.
End Rpc.

Arguments ASend {W} r.
Arguments AServe {W}.
Arguments ARecv {W}.
Arguments c2s {W} s.
Arguments s2c {W} s.
Arguments running {W} s.
Arguments proj {W} s.

(* ==================================================================== concrete world
   Python values as far as umsgpack distinguishes them.  Strings, bytes and floats are opaque
   identifiers (interned by the harness: equal ids <-> equal values); a str carries whether
   str.encode('utf-8') succeeds (lone surrogates do not). *)
Inductive pyv : Type :=
| PNone
| PBool (b : bool)
| PInt (z : Z)
| PFloat (bits : N)
| PStr (utf8 : bool) (id : N)
| PBytes (id : N)
| PList (l : list pyv)
| PTuple (l : list pyv)
| PDict (kv : list (pyv * pyv))
| PObj (id : N).          (* anything else: object(), set, class instances, ... *)

Inductive wmsg : Type :=
| MNil
| MBool (b : bool)
| MInt (z : Z)
| MFloat (bits : N)
| MStr (utf8 : bool) (id : N)
| MBin (id : N)
| MArr (l : list wmsg)
| MMap (kv : list (wmsg * wmsg)).

Fixpoint sequence {A} (l : list (option A)) : option (list A) :=
  match l with
  | [] => Some []
  | None :: _ => None
  | Some a :: r => match sequence r with Some r' => Some (a :: r') | None => None end
  end.

Definition opair {A B} (a : option A) (b : option B) : option (A * B) :=
  match a, b with Some x, Some y => Some (x, y) | _, _ => None end.

(* umsgpack.py:390-435 (_pack3): dispatch on the type *)
Fixpoint c_to_msg (v : pyv) : option wmsg :=
  match v with
  | PNone => Some MNil
  | PBool b => Some (MBool b)
  | PInt z => Some (MInt z)
  | PFloat x => Some (MFloat x)
  | PStr u i => Some (MStr u i)
  | PBytes i => Some (MBin i)
  | PList l => option_map MArr (sequence (map c_to_msg l))
  | PTuple l => option_map MArr (sequence (map c_to_msg l))
  | PDict kv => option_map MMap
                  (sequence (map (fun p => opair (c_to_msg (fst p)) (c_to_msg (snd p))) kv))
  | PObj _ => None
  end.

(* umsgpack.py:608-611 _deep_list_to_tuple *)
Fixpoint tuplify (v : pyv) : pyv :=
  match v with
  | PList l => PTuple (map tuplify l)
  | _ => v
  end.

(* umsgpack.py:596-643: arrays -> list, map keys that are lists -> tuples *)
Fixpoint c_of_msg (w : wmsg) : pyv :=
  match w with
  | MNil => PNone
  | MBool b => PBool b
  | MInt z => PInt z
  | MFloat x => PFloat x
  | MStr u i => PStr u i
  | MBin i => PBytes i
  | MArr l => PList (map c_of_msg l)
  | MMap kv => PDict (map (fun p => (tuplify (c_of_msg (fst p)), c_of_msg (snd p))) kv)
  end.

(* "tuples arrive as lists" (dict keys, which must stay hashable, arrive as tuples) *)
Fixpoint c_normalise (v : pyv) : pyv :=
  match v with
  | PList l => PList (map c_normalise l)
  | PTuple l => PList (map c_normalise l)
  | PDict kv => PDict (map (fun p => (tuplify (c_normalise (fst p)), c_normalise (snd p))) kv)
  | _ => v
  end.

(* the byte level is C14's; here a message is its own encoding when the format can carry it
   (umsgpack.py:218-243 integer range, :259 obj.encode('utf-8')) *)
Fixpoint encodable (w : wmsg) : bool :=
  match w with
  | MInt z => (Z.leb (- 2 ^ 63) z && Z.ltb z (2 ^ 64))%Z
  | MStr u _ => u
  | MArr l => forallb encodable l
  | MMap kv => forallb (fun p => encodable (fst p) && encodable (snd p)) kv
  | _ => true
  end.

Definition c_enc (w : wmsg) : option wmsg := if encodable w then Some w else None.
Definition c_dec (b : wmsg) : option wmsg := Some b.

Definition ctext : Type := (bool * N)%type.     (* str: (encodable, id) *)

(* reserved identifiers of the interning table of the harness *)
Definition id_SerializeError : N := 0.
Definition id_Serialize_error : N := 1.
Definition id_close : N := 2.

Definition c_reply_val (v : pyv) (ok : bool) : pyv := PTuple [v; PBool ok].
Definition c_exc_val (c : N) (m : ctext) : pyv := PTuple [PStr true c; PStr (fst m) (snd m)].

Definition c_unpair (v : pyv) : option (pyv * bool) :=
  match v with
  | PList [a; PBool b] => Some (a, b)
  | PTuple [a; PBool b] => Some (a, b)
  | _ => None
  end.

Definition c_exc_text (v : pyv) : option ctext :=
  match v with
  | PList (_ :: PStr u i :: _) => Some (u, i)
  | PTuple (_ :: PStr u i :: _) => Some (u, i)
  | _ => None
  end.

Definition c_is_close (m : pyv) : bool :=
  match m with
  | PList (PStr _ i :: _) => N.eqb i id_close
  | PTuple (PStr _ i :: _) => N.eqb i id_close
  | _ => false
  end.

Definition coutcome : Type := outcome pyv N ctext.

(* The in-process API as a finite table of recorded outcomes: the project state is the number of
   requests executed so far, the k-th executed request has the k-th recorded outcome. *)
Definition table_api (table : list coutcome) (k : nat) : coutcome * nat :=
  (nth k table (Raise id_SerializeError (true, id_Serialize_error)), S k).

Definition concrete_world (table : list coutcome) : world := {|
  pstate := nat; request := pyv; pyval := pyv; wire := wmsg; bytes := wmsg; cls := N; text := ctext;
  api := fun k _ => table_api table k;
  serve := fun k _ => table_api table k;
  req_val := fun r => r;
  is_close := c_is_close;
  to_msg := c_to_msg; of_msg := c_of_msg; enc := c_enc; dec := c_dec;
  normalise := c_normalise;
  reply_val := c_reply_val; exc_val := c_exc_val;
  unpair := c_unpair; exc_text := c_exc_text;
  serr_cls := id_SerializeError; serr_text := (true, id_Serialize_error)
|}.

(* decidable equality of observations, for the correspondence run *)
Definition list_eqb {A} (f : A -> A -> bool) : list A -> list A -> bool :=
  fix go (a b : list A) {struct a} : bool :=
    match a, b with
    | [], [] => true
    | x :: a', y :: b' => f x y && go a' b'
    | _, _ => false
    end.

Fixpoint pyv_eqb (a b : pyv) {struct a} : bool :=
  match a, b with
  | PNone, PNone => true
  | PBool x, PBool y => Bool.eqb x y
  | PInt x, PInt y => Z.eqb x y
  | PFloat x, PFloat y => N.eqb x y
  | PStr u i, PStr v j => Bool.eqb u v && N.eqb i j
  | PBytes i, PBytes j => N.eqb i j
  | PList l, PList m => list_eqb pyv_eqb l m
  | PTuple l, PTuple m => list_eqb pyv_eqb l m
  | PDict l, PDict m =>
      (fix go (l m : list (pyv * pyv)) {struct l} : bool :=
         match l, m with
         | [], [] => true
         | (k, v) :: l', (k', v') :: m' => pyv_eqb k k' && pyv_eqb v v' && go l' m'
         | _, _ => false
         end) l m
  | PObj i, PObj j => N.eqb i j
  | _, _ => false
  end.

Definition cobs : Type := obs pyv ctext.

Definition cobs_eqb (a b : cobs) : bool :=
  match a, b with
  | Returned x, Returned y => pyv_eqb x y
  | Raised (u, i), Raised (v, j) => Bool.eqb u v && N.eqb i j
  | LocalError, LocalError => true
  | ConnDead, ConnDead => true
  | Blocked, Blocked => true
  | BadReply, BadReply => true
  | _, _ => false
  end.

(* What the correspondence run evaluates: the model's observations for a sequence of requests
   served with the recorded outcomes, compared with what the real client observed. *)
Definition check_sequence (table : list coutcome) (reqs : list pyv) (observed : list cobs)
                          (alive : bool) : bool :=
  let '(os, s) := run_calls (concrete_world table) (init (concrete_world table) 0) reqs in
  list_eqb cobs_eqb os observed && Bool.eqb (running s) alive.

Definition check_pipeline (table : list coutcome) (reqs : list pyv) (observed : list cobs) : bool :=
  let '(os, s) := pipeline (concrete_world table) (init (concrete_world table) 0) reqs in
  list_eqb cobs_eqb os observed.

(* interleaved schedules of the correspondence run *)
Inductive cact : Type := CSend (r : pyv) | CServe | CRecv.

Definition check_schedule (table : list coutcome) (acts : list cact) (observed : list cobs) : bool :=
  let W := concrete_world table in
  let sch := map (fun a => match a with
                           | CSend r => @ASend W r
                           | CServe => AServe
                           | CRecv => ARecv
                           end) acts in
  list_eqb cobs_eqb (fst (run_sched W (init W 0) sch)) observed.
