(* The memoised evaluation of supp/scope.py in state-passing style (definitions only; proofs in
   Proofs/MemoProofs.v).

   (policy of commit 0211a17: a key is looked up in every layer, outside-in; a value is stored in
   the layer of the innermost loop it depends on; a flow closing a loop answers with the loop.)
   mstate.perm / layers   SourceScope._loop_memo   scope.py       [permanent, layer of the outer
                                                                   resolution, ..., innermost]
   mstate.dstack          SourceScope._loop_deps   scope.py:210   stack of dependency sets
   mstate.resolving       LoopFlow._resolving      scope.py:165   flags of the loops being resolved
   memo_call              loop_memo                scope.py:135-155
   names_m                Flow.names               scope.py:82-88
   pbody                  Flow._get_parent_names   scope.py:95-123  (a parent is read once here; the
                          code reads `p.names` twice per parent, the second read is a memo hit that
                          re-adds the same dependencies)
   loop_m                 LoopFlow.names/_resolve  scope.py:167-186
   query_memo             Flow.names_at            scope.py:125-128

   [as_is = true] gives the policy of the tree before commit 346db57 (cached_property: every value
   is stored permanently, also one computed while a loop was unresolved); it is kept only for the
   refutation witness C04_as_is_refuted. *)
From Coq Require Import List Bool Arith NArith PArith FMapPositive.
Import ListNotations.
From Supp Require Import Model.Layout Model.FlowGraph.

Definition deps := list nat.

Definition dep_add (l : nat) (d : deps) : deps := if existsb (Nat.eqb l) d then d else l :: d.
Definition dep_union (a b : deps) : deps := fold_right dep_add b a.
Definition dep_remove (l : nat) (d : deps) : deps := filter (fun x => negb (Nat.eqb l x)) d.

Inductive mkey := KNames (f : nat) | KPar (f : nat) | KLoop (l : nat).

Definition entry := (env * deps)%type.

Record layer := mkLayer { m_names : PM.t entry; m_par : PM.t entry; m_loop : PM.t entry }.

Definition empty_layer : layer := mkLayer (PM.empty _) (PM.empty _) (PM.empty _).

Definition pkey (i : nat) : positive := Pos.of_succ_nat i.

Definition lookup (k : mkey) (m : layer) : option entry :=
  match k with
  | KNames f => PM.find (pkey f) (m_names m)
  | KPar f => PM.find (pkey f) (m_par m)
  | KLoop l => PM.find (pkey l) (m_loop m)
  end.

Definition store (k : mkey) (v : entry) (m : layer) : layer :=
  match k with
  | KNames f => mkLayer (PM.add (pkey f) v (m_names m)) (m_par m) (m_loop m)
  | KPar f => mkLayer (m_names m) (PM.add (pkey f) v (m_par m)) (m_loop m)
  | KLoop l => mkLayer (m_names m) (m_par m) (PM.add (pkey l) v (m_loop m))
  end.

Record mstate := mkState {
  perm : layer;                 (* _loop_memo[0] *)
  layers : list layer;          (* _loop_memo[1:], innermost first *)
  dstack : list deps;           (* _loop_deps, innermost first *)
  resolving : list nat }.       (* loops whose _resolving flag is set, innermost first *)

Definition init_state : mstate := mkState empty_layer [] [[]] [].

(* top._loop_deps[-1].update(d) *)
Definition add_deps (d : deps) (st : mstate) : mstate :=
  match dstack st with
  | top :: r => mkState (perm st) (layers st) (dep_union d top :: r) (resolving st)
  | [] => st
  end.

Definition push_deps (st : mstate) : mstate :=
  mkState (perm st) (layers st) ([] :: dstack st) (resolving st).

Definition pop_deps (st : mstate) : deps * mstate :=
  match dstack st with
  | top :: r => (top, mkState (perm st) (layers st) r (resolving st))
  | [] => ([], st)
  end.

(* layer = max([stack.index(l) for l in deps] or [0]); memo[layer][key] = value, deps
   (a dependency that is not on the stack: ValueError, nothing is stored).
   [rs]/[ls] = the resolving loops and their layers, innermost first: the innermost loop of deps is
   the first element of rs that occurs in deps. *)
Fixpoint store_in (k : mkey) (v : entry) (d : deps) (rs : list nat) (ls : list layer) : option (list layer) :=
  match rs, ls with
  | r :: rs', l :: ls' =>
      if existsb (Nat.eqb r) d then Some (store k v l :: ls')
      else match store_in k v d rs' ls' with Some ls'' => Some (l :: ls'') | None => None end
  | _, _ => None
  end.

Definition store_entry (as_is : bool) (k : mkey) (v : env) (d : deps) (st : mstate) : mstate :=
  match d, as_is with
  | _ :: _, false =>
      if forallb (fun l => existsb (Nat.eqb l) (resolving st)) d then
        match store_in k (v, d) d (resolving st) (layers st) with
        | Some ls => mkState (perm st) ls (dstack st) (resolving st)
        | None => st
        end
      else st
  | _, _ => mkState (store k (v, d) (perm st)) (layers st) (dstack st) (resolving st)
  end.

(* for m in memo: permanent layer first, then the layers of the resolutions in progress outside-in *)
Fixpoint lookup_layers (k : mkey) (ls : list layer) : option entry :=
  match ls with
  | [] => None
  | l :: r => match lookup k l with Some e => Some e | None => lookup_layers k r end
  end.

Definition memo_lookup (k : mkey) (st : mstate) : option entry :=
  match lookup k (perm st) with
  | Some e => Some e
  | None => lookup_layers k (rev (layers st))
  end.

(* scope.py:135-155 *)
Definition memo_call (as_is : bool) (k : mkey) (func : mstate -> option (env * mstate)) (st : mstate)
  : option (env * mstate) :=
  match memo_lookup k st with
  | Some (v, d) => Some (v, add_deps d st)
  | None =>
      match func (push_deps st) with
      | None => None
      | Some (v, st1) =>
          let '(d, st2) := pop_deps st1 in
          Some (v, store_entry as_is k v d (add_deps d st2))
      end
  end.

Section MemoEval.
  Variable as_is : bool.
  Variable canon : list alt -> list alt.
  Variable g : graph.

  Definition enter_loop (l : nat) (st : mstate) : mstate :=
    mkState (perm st) (empty_layer :: layers st) (dstack st) (l :: resolving st).

  (* finally: _loop_memo.pop(); _loop_deps[-1].discard(self); _resolving = False *)
  Definition leave_loop (l : nat) (st : mstate) : mstate :=
    mkState (perm st) (tl (layers st))
            (match dstack st with top :: r => dep_remove l top :: r | [] => [] end)
            (filter (fun x => negb (Nat.eqb l x)) (resolving st)).

  (* LoopFlow.names: None = UNRESOLVED *)
  Definition loop_m (rec : nat -> mstate -> option (env * mstate)) (l : nat) (st : mstate)
    : option (option env * mstate) :=
    if existsb (Nat.eqb l) (resolving st) then Some (None, add_deps [l] st)
    else match nth_error (loops g) l with
         | None => None
         | Some t =>
             match memo_call as_is (KLoop l)
                     (fun st1 => match rec t (enter_loop l st1) with
                                 | Some (v, st2) => Some (v, leave_loop l st2)
                                 | None => None
                                 end) st with
             | Some (v, st') => Some (Some v, st')
             | None => None
             end
         end.

  Fixpoint gather_m (rec : nat -> mstate -> option (env * mstate)) (ps : list parent) (st : mstate)
    : option (list env * mstate) :=
    match ps with
    | [] => Some ([], st)
    | Direct i :: r =>
        match rec i st with
        | None => None
        | Some (e, st1) =>
            match gather_m rec r st1 with
            | Some (es, st2) => Some (e :: es, st2)
            | None => None
            end
        end
    | Loop l :: r =>
        match loop_m rec l st with
        | None => None
        | Some (oe, st1) =>
            match gather_m rec r st1 with
            | Some (es, st2) => Some (match oe with Some e => e :: es | None => es end, st2)
            | None => None
            end
        end
    end.

  Fixpoint chain_m (rec : nat -> mstate -> option (env * mstate)) (cs : list nat) (st : mstate)
    : option (list env * mstate) :=
    match cs with
    | [] => Some ([], st)
    | c :: r =>
        match rec c st with
        | None => None
        | Some (e, st1) =>
            match chain_m rec r st1 with
            | Some (es, st2) => Some (e :: es, st2)
            | None => None
            end
        end
    end.

  (* Flow._get_parent_names *)
  Definition pbody (rec : nat -> mstate -> option (env * mstate)) (fl : flow) (st : mstate)
    : option (env * mstate) :=
    match parents fl with
    | [] =>
        match chain_m rec (chain fl) st with
        | Some (es, st1) => Some (hide_env (hide fl) (fold_right overlay (PM.empty _) es), st1)
        | None => None
        end
    | ps =>
        match gather_m rec ps st with
        | Some (es, st1) => Some (join canon es, st1)
        | None => None
        end
    end.

  (* Flow.names *)
  Fixpoint names_m (fuel : nat) (f : nat) (st : mstate) : option (env * mstate) :=
    match fuel with
    | 0 => None
    | S k =>
        match nth_error (flows g) f with
        | None => None
        | Some fl =>
            match (if as_is then None else
                   match closes_of g f with
                   | Some l => if existsb (Nat.eqb l) (resolving st) then None else Some l
                   | None => None
                   end) with
            | Some l =>                                   (* closes.names *)
                match loop_m (names_m k) l st with
                | Some (Some v, st') => Some (v, st')
                | _ => None
                end
            | None =>
                memo_call as_is (KNames f)
                  (fun st1 => match memo_call as_is (KPar f) (pbody (names_m k) fl) st1 with
                              | Some (pe, st2) => Some (own_env (own fl) pe, st2)
                              | None => None
                              end) st
            end
        end
    end.

  (* Flow.names_at with the bisect index already computed *)
  Definition names_at_m (fuel : nat) (f : nat) (idx : nat) (st : mstate) : option (env * mstate) :=
    match nth_error (flows g) f with
    | None => None
    | Some fl =>
        match memo_call as_is (KPar f) (pbody (names_m fuel) fl) st with
        | Some (pe, st1) => Some (own_env (firstn idx (own fl)) pe, st1)
        | None => None
        end
    end.
End MemoEval.

(* one request flow.names_at(loc).get(n) on the analysis state st *)
Definition query_memo_gen (as_is : bool) (g : graph) (km : keymap) (fuel : nat) (st : mstate) (q : query)
  : option (option (list alt) * mstate) :=
  let '(f, loc, n) := q in
  match nth_error (flows g) f with
  | None => None
  | Some fl =>
      match names_at_m as_is (norm km) g fuel f (bisect_idx km fl loc) st with
      | Some (e, st') => Some (PM.find n e, st')
      | None => None
      end
  end.

Definition query_memo := query_memo_gen false.

(* the analysis state after a history of earlier requests (their answers are dropped) *)
Fixpoint run_history (as_is : bool) (g : graph) (km : keymap) (fuel : nat) (st : mstate) (h : list query)
  : option mstate :=
  match h with
  | [] => Some st
  | q :: r =>
      match query_memo_gen as_is g km fuel st q with
      | Some (_, st') => run_history as_is g km fuel st' r
      | None => None
      end
  end.

(* answers of a whole history, in order (used by the correspondence) *)
Fixpoint answers (as_is : bool) (g : graph) (km : keymap) (fuel : nat) (st : mstate) (h : list query)
  : list (option (option (list alt))) :=
  match h with
  | [] => []
  | q :: r =>
      match query_memo_gen as_is g km fuel st q with
      | Some (a, st') => Some a :: answers as_is g km fuel st' r
      | None => [None]
      end
  end.

(* ---- fragment for which the memo theorem is proved in full: graphs without loop parents ------ *)

Definition is_direct (p : parent) : bool := match p with Direct _ => true | Loop _ => false end.

Definition no_loopsb (g : graph) : bool :=
  match loops g with [] => forallb (fun fl => forallb is_direct (parents fl)) (flows g) | _ => false end.

(* ---- well-formedness of a dumped graph with scope levels (hypothesis of the full C04 theorem) ----
   lvs = scope nesting depth of every flow (pseudo flows builtins/globals: 0).  Checked:
   parents and loop targets stay in the scope level, a Direct parent was created before the flow,
   the chain of an entry flow points to outer levels, a flow with parents has a Direct parent,
   all indices are in range. *)
Definition lvf (lvs : list nat) (f : nat) : nat := nth f lvs 0.

Definition flow_wfb (g : graph) (lvs : list nat) (f : nat) (fl : flow) : bool :=
  forallb (fun p => match p with
                    | Direct i => Nat.eqb (lvf lvs i) (lvf lvs f) && Nat.ltb i f
                    | Loop l => match nth_error (loops g) l with
                                | Some t => Nat.eqb (lvf lvs t) (lvf lvs f) && Nat.ltb t (length (flows g))
                                | None => false
                                end
                    end) (parents fl) &&
  match parents fl with
  | [] => forallb (fun c => Nat.ltb (lvf lvs c) (lvf lvs f) && Nat.ltb c (length (flows g))) (chain fl)
  | _ => existsb is_direct (parents fl)
  end.

Definition graph_wfb (g : graph) (lvs : list nat) : bool :=
  forallb (fun p => flow_wfb g lvs (fst p) (snd p)) (combine (seq 0 (length (flows g))) (flows g)).
