(* Chains of nested scopes with CLASS levels (extension of Model/Nested.v).

   supp: a class body is analysed from the enclosing scope's FINAL environment without shadowing
   (a name the class binds later still shows the enclosing binding before its own binding);
   the names a class body binds are invisible to the scopes nested in it - a method's entry is
   built from the nearest enclosing function levels only (scope.py: ClassScope is skipped by
   _get_parent_names of nested function scopes).  Definitions only; proofs in
   Proofs/NestedClsProofs.v; tie (I): part D of harness/props/c01.py. *)
From Coq Require Import List Bool NArith.
Import ListNotations.
From Supp Require Import Model.PyCore Model.Reach Model.ReachX Model.Nested.

Inductive skind := KFun | KCls.
Definition lvl := (skind * cmd)%type.

(* bodies of the function levels (the module counts as one), outermost first *)
Fixpoint funs_of (outers : list lvl) : list cmd :=
  match outers with
  | [] => []
  | (KFun, c) :: r => c :: funs_of r
  | (KCls, _) :: r => funs_of r
  end.

Fixpoint exit_chain_k (outers : list lvl) (acc : aenv) : aenv :=
  match outers with
  | [] => acc
  | (KFun, c) :: r => exit_chain_k r (exit_a acc c)
  | (KCls, _) :: r => exit_chain_k r acc            (* a class level exports nothing *)
  end.

Definition entry_k (outers : list lvl) (l : lvl) : aenv :=
  match fst l with
  | KFun => enter_a (binds (snd l)) (exit_chain_k outers aenv0)
  | KCls => exit_chain_k outers aenv0
  end.

Definition seen_k (outers : list lvl) (l : lvl) (r : site) : list alt := seenx (snd l) (entry_k outers l) r.
Definition visible_k (outers : list lvl) (l : lvl) (r : site) : bool := visiblex (snd l) (entry_k outers l) r.
Definition e02_k (outers : list lvl) (l : lvl) (r : site) : bool := e02x (snd l) (entry_k outers l) r.

(* run-time namespace a body of this level can start with: a function's own locals are unbound;
   any (other) name can be bound only if an enclosing FUNCTION level binds it - class namespaces are
   not visible from nested scopes, and a class body looks a name it does not hold up in the
   enclosing functions' cells or the globals (the outermost level). *)
Definition rt_env_k (outers : list lvl) (l : lvl) (p : renv) : Prop :=
  forall x d, p x = Some d ->
    (fst l = KFun -> mem_name x (binds (snd l)) = false) /\
    exists c, In c (funs_of outers) /\ In x (binds c).
