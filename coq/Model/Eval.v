(* Model of the recursive engines of supp over a finite object graph (definitions only; proofs in
   Proofs/EvalProofs.v).

   engine 1  EvalCtx.evaluate          supp/evaluator.py:36-97   (in-progress set ctx.nodes)
   engine 2  EvalCtx.declarations      supp/evaluator.py:99-141  (F21: no visited set as-is)
   engine 3  ClassObject._attrs / InstanceValue._instance_attrs  supp/name.py:371-436 (F29: unguarded as-is,
             F30: a base that is a CompositeValue has no _attrs as-is)
   engine 4  Flow.names / LoopFlow.names  supp/scope.py:82-190  (_resolving flag)
   plus the result-shape level: lint (linter.py:24-47) and location formatting (assistant.py:97-104).

   Every engine takes explicit fuel; fuel exhaustion is the distinguished value OutOfFuel (never a
   normal answer).  One fuel unit is consumed per *entry* of an engine, i.e. fuel bounds the depth
   of the Python call stack, exactly what RecursionError measures. *)
From Coq Require Import List Bool Arith NArith ZArith.
Import ListNotations.

Definition ident := N.           (* interned attribute names *)

(* ---------------------------------------------------------------------------------------- *)
(* object graph                                                                             *)
(* ---------------------------------------------------------------------------------------- *)

Inductive node :=
| NRef (target : option nat)          (* ast.Name (Load): flow.names_at(np(node)).get(id) *)
| NAssigned (value : nat)             (* AssignedName -> value_node *)
| NImported (target : option nat)     (* ImportedName -> resolve(ctx) *)
| NAttr (value : nat) (attr : ident)  (* ast.Attribute *)
| NMulti (alts : list nat)            (* MultiName.valid_names *)
| NCall (func : nat)                  (* ast.Call *)
| NFunc (returns : list nat)          (* FuncScope; scope.returns (a bare return = dangling id) *)
| NClass (bases : list nat) (locals : list (ident * nat))     (* ClassScope *)
| NArg (cls : option nat)             (* ArgumentName; Some c = first parameter of a method of c *)
| NConst (is_type : bool)             (* Constant / builtin RuntimeName; is_type = instantiable *)
| NModule (attrs : list (ident * nat))(* SourceModule / ImportedModule *)
| NOther.                             (* any other node: evaluate logs and returns None *)

Definition graph := list node.
Definition size (g : graph) : nat := length g.
Definition lookup (g : graph) (n : nat) : option node := nth_error g n.

Inductive atom :=
| AClass (c : nat) | AInst (c : nat) | AFunc (f : nat) | AModule (m : nat) | ARuntime (is_type : bool).

Inductive value := VAtom (a : atom) | VComp (vs : list value).    (* CompositeValue *)

Inductive err := EAttrError.     (* 'CompositeValue' object has no attribute '_attrs' (F30) *)

Inductive result (A : Type) := Ok (x : A) | Err (e : err) | OutOfFuel.
Arguments Ok {A} x.
Arguments Err {A} e.
Arguments OutOfFuel {A}.

Definition bind {A B} (r : result A) (k : A -> result B) : result B :=
  match r with Ok x => k x | Err e => Err e | OutOfFuel => OutOfFuel end.

Fixpoint mapM {A B} (f : A -> result B) (l : list A) : result (list B) :=
  match l with
  | [] => Ok []
  | x :: r => bind (f x) (fun y => bind (mapM f r) (fun ys => Ok (y :: ys)))
  end.

(* first non-None answer, left to right (CompositeValue.get_attr, name.py:145-151) *)
Fixpoint firstM {A B} (f : A -> result (option B)) (l : list A) : result (option B) :=
  match l with
  | [] => Ok None
  | x :: r => bind (f x) (fun o => match o with Some y => Ok (Some y) | None => firstM f r end)
  end.

Fixpoint somes {A} (l : list (option A)) : list A :=
  match l with [] => [] | Some x :: r => x :: somes r | None :: r => somes r end.

Definition mem (n : nat) (l : list nat) : bool := existsb (Nat.eqb n) l.

Fixpoint assoc {A} (k : ident) (l : list (ident * A)) : option A :=
  match l with [] => None | (k', v) :: r => if N.eqb k k' then Some v else assoc k r end.

Fixpoint atoms (v : value) : list atom :=
  match v with VAtom a => [a] | VComp vs => flat_map atoms vs end.

(* one switch per defect: false = the pinned tree, true = the repaired code *)
Record cfg := { guard_attrs : bool;      (* F29 in-progress marker on the attribute tables *)
                flatten_bases : bool;    (* F30 bases restricted to class objects, alternatives flattened *)
                decl_visited : bool }.   (* F21 visited check in declarations *)
Definition cfg_fixed := {| guard_attrs := true; flatten_bases := true; decl_visited := true |}.
Definition cfg_as_is := {| guard_attrs := false; flatten_bases := false; decl_visited := false |}.

(* in-progress sets: ctx.nodes, ClassObject._attrs markers, InstanceValue._attrs markers *)
Record prog := { ev : list nat; ca : list nat; ia : list nat }.
Definition prog0 := {| ev := []; ca := []; ia := [] |}.
Definition add_ev n s := {| ev := n :: ev s; ca := ca s; ia := ia s |}.
Definition add_ca n s := {| ev := ev s; ca := n :: ca s; ia := ia s |}.
Definition add_ia n s := {| ev := ev s; ca := ca s; ia := n :: ia s |}.

Definition table := list (ident * nat).
Definition evalT := prog -> nat -> result (option value).
Definition tblT := prog -> nat -> result table.

(* ClassObject.bases (name.py:371-374): the evaluated base expressions.
   as-is: every non-None value is kept, and a value without _attrs makes the table fail;
   fixed: alternatives are flattened one level and only class objects / runtime classes stay. *)
Definition base_objects (c : cfg) (vals : list (option value)) : result (list atom) :=
  if flatten_bases c then
    Ok (flat_map (fun v => match v with
                           | VAtom (AClass k) => [AClass k]
                           | VAtom (ARuntime t) => [ARuntime t]
                           | VAtom _ => []
                           | VComp vs => flat_map (fun w => match w with
                                                           | VAtom (AClass k) => [AClass k]
                                                           | VAtom (ARuntime t) => [ARuntime t]
                                                           | _ => [] end) vs
                           end) (somes vals))
  else
    mapM (fun v => match v with VAtom a => Ok a | VComp _ => Err EAttrError end) (somes vals).

(* ClassObject._attrs (name.py:376-383).  Lookup priority: own locals, then bases left to right. *)
Definition cattrs_step (c : cfg) (g : graph) (ev_ : evalT) (ca_ : tblT) (s : prog) (k : nat) : result table :=
  match lookup g k with
  | Some (NClass bases locals) =>
      if guard_attrs c && mem k (ca s) then Ok []
      else
        let s' := add_ca k s in
        bind (mapM (ev_ s') bases) (fun vals =>
        bind (base_objects c vals) (fun bs =>
        bind (mapM (fun b => match b with AClass k' => ca_ s' k' | _ => Ok [] end) bs) (fun tabs =>
        Ok (locals ++ concat tabs))))
  | _ => Ok []
  end.

(* InstanceValue._instance_attrs (name.py:416-429): the attributes assigned through an instance in
   the class or any of its bases.  Attribute assignments are outside this fragment, so the table
   is empty, but the recursion over the instances of the bases is what has to terminate. *)
Definition iattrs_step (c : cfg) (g : graph) (ev_ : evalT) (ia_ : tblT) (s : prog) (k : nat) : result table :=
  match lookup g k with
  | Some (NClass bases locals) =>
      if guard_attrs c && mem k (ia s) then Ok []
      else
        let s' := add_ia k s in
        bind (mapM (ev_ s') bases) (fun vals =>
        bind (base_objects c vals) (fun bs =>
        bind (mapM (fun b => match b with AClass k' => ia_ s' k' | _ => Ok [] end) bs) (fun tabs =>
        Ok (concat tabs))))
  | _ => Ok []
  end.

(* Object.get_attr on one atomic value *)
Definition atom_attr (g : graph) (ca_ ia_ : tblT) (s : prog) (a : ident) (x : atom) : result (option nat) :=
  match x with
  | AClass k => bind (ca_ s k) (fun t => Ok (assoc a t))
  | AInst k =>                       (* InstanceValue._attrs: class table, then instance attributes on top *)
      bind (ca_ s k) (fun t => bind (ia_ s k) (fun t2 => Ok (assoc a (t2 ++ t))))
  | AModule m => match lookup g m with Some (NModule t) => Ok (assoc a t) | _ => Ok None end
  | AFunc _ => Ok None
  | ARuntime _ => Ok None
  end.

Definition get_attr (g : graph) (ca_ ia_ : tblT) (s : prog) (v : value) (a : ident) : result (option nat) :=
  firstM (atom_attr g ca_ ia_ s a) (atoms v).

(* func.call(ctx) for Callable values (evaluator.py:77-83, name.py:243-257, 385-406) *)
Definition call_value (g : graph) (ev_ : evalT) (s : prog) (v : value) : result (option value) :=
  match v with
  | VAtom (AClass k) => Ok (Some (VAtom (AInst k)))
  | VAtom (AFunc f) => match lookup g f with
                       | Some (NFunc [r]) => ev_ s r
                       | _ => Ok None
                       end
  | VAtom (ARuntime true) => Ok (Some (VAtom (ARuntime false)))
  | _ => Ok None
  end.

(* EvalCtx.evaluate + _evaluate (evaluator.py:36-97) *)
Definition eval_step (c : cfg) (g : graph) (ev_ : evalT) (ca_ ia_ : tblT) (s : prog) (n : nat)
  : result (option value) :=
  match lookup g n with
  | None => Ok None                                   (* node is None *)
  | Some nd =>
    if mem n (ev s) then Ok None                      (* node in self.nodes *)
    else
      let s' := add_ev n s in
      match nd with
      | NRef None => Ok None
      | NRef (Some m) => ev_ s' m
      | NAssigned v => ev_ s' v
      | NImported None => Ok None
      | NImported (Some m) => ev_ s' m
      | NAttr v a =>
          bind (ev_ s' v) (fun o => match o with
            | None => Ok None
            | Some x => bind (get_attr g ca_ ia_ s' x a) (fun t => match t with
                          | None => Ok None
                          | Some m => ev_ s' m end)
            end)
      | NMulti alts => bind (mapM (ev_ s') alts) (fun vs => Ok (Some (VComp (somes vs))))
      | NCall f => bind (ev_ s' f) (fun o => match o with
                                            | None => Ok None
                                            | Some x => call_value g ev_ s' x end)
      | NFunc _ => Ok (Some (VAtom (AFunc n)))
      | NClass _ _ => Ok (Some (VAtom (AClass n)))
      | NArg None => Ok None
      | NArg (Some k) => Ok (Some (VAtom (AInst k)))
      | NConst t => Ok (Some (VAtom (ARuntime t)))
      | NModule _ => Ok (Some (VAtom (AModule n)))
      | NOther => Ok None
      end
  end.

Fixpoint eval (fuel : nat) (c : cfg) (g : graph) (s : prog) (n : nat) {struct fuel} : result (option value) :=
  match fuel with
  | O => OutOfFuel
  | S f => eval_step c g (eval f c g) (cattrs f c g) (iattrs f c g) s n
  end
with cattrs (fuel : nat) (c : cfg) (g : graph) (s : prog) (k : nat) {struct fuel} : result table :=
  match fuel with
  | O => OutOfFuel
  | S f => cattrs_step c g (eval f c g) (cattrs f c g) s k
  end
with iattrs (fuel : nat) (c : cfg) (g : graph) (s : prog) (k : nat) {struct fuel} : result table :=
  match fuel with
  | O => OutOfFuel
  | S f => iattrs_step c g (eval f c g) (iattrs f c g) s k
  end.

(* fuel that suffices for the guarded engines (EvalProofs.eval_total) *)
Definition eval_fuel (g : graph) : nat := 3 * size g + 1.

(* ---------------------------------------------------------------------------------------- *)
(* engine 2: declarations (evaluator.py:99-141)                                             *)
(* ---------------------------------------------------------------------------------------- *)

Inductive dres := DOne (n : nat) | DAlts (ns : list nat).

Definition dmem (n : nat) (acc : list dres) : bool :=
  existsb (fun d => match d with DOne m => Nat.eqb n m | DAlts _ => false end) acc.

(* [continue_ acc' cname] = the tail call self.declarations(cname, result) *)
Definition decl_step (c : cfg) (g : graph) (efuel : nat) (rec : list dres -> nat -> result (list dres))
  (acc : list dres) (n : nat) : result (list dres) :=
  match lookup g n with
  | None => Ok acc
  | Some (NRef None) => Ok acc
  | Some (NRef (Some m)) => rec acc m
  | Some (NMulti []) => Ok acc
  | Some (NMulti [m]) => rec acc m
  | Some (NMulti alts) => Ok (acc ++ [DAlts alts])
  | Some (NAttr v a) =>
      bind (eval efuel c g prog0 v) (fun o => match o with
        | None => Ok acc
        | Some x => bind (get_attr g (cattrs efuel c g) (iattrs efuel c g) prog0 x a) (fun t =>
                      match t with None => Ok acc | Some m => rec acc m end)
        end)
  | Some (NImported t) =>
      if decl_visited c && dmem n acc then Ok acc
      else match t with
           | None => Ok (acc ++ [DOne n])
           | Some m => rec (acc ++ [DOne n]) m
           end
  | Some _ => Ok (acc ++ [DOne n])
  end.

Fixpoint decl (fuel : nat) (c : cfg) (g : graph) (efuel : nat) (acc : list dres) (n : nat) {struct fuel}
  : result (list dres) :=
  match fuel with
  | O => OutOfFuel
  | S f => decl_step c g efuel (decl f c g efuel) acc n
  end.

(* Typing of the graph as nast/scope build it: what a name lookup / attribute table / import
   resolution can yield.  rank 3: expression nodes, 2: MultiName, 1: ImportedName, 0: the rest. *)
Definition rank (nd : node) : nat :=
  match nd with
  | NRef _ | NAttr _ _ | NCall _ => 3
  | NMulti _ => 2
  | NImported _ => 1
  | _ => 0
  end.

Definition rank_at (g : graph) (n : nat) : nat :=
  match lookup g n with Some nd => rank nd | None => 0 end.

Definition tbl_ok (g : graph) (t : table) : bool := forallb (fun kv => rank_at g (snd kv) <=? 2) t.

Definition node_typed (g : graph) (nd : node) : bool :=
  match nd with
  | NRef (Some m) => rank_at g m <=? 2
  | NImported (Some m) => rank_at g m <=? 1       (* a module object or an exported (first) name *)
  | NMulti alts => forallb (fun m => rank_at g m <=? 1) alts
  | NClass _ locals => tbl_ok g locals
  | NModule t => tbl_ok g t
  | _ => true
  end.

Definition typed (g : graph) : bool := forallb (node_typed g) g.

Definition decl_fuel (g : graph) : nat := size g + 4.

(* ---------------------------------------------------------------------------------------- *)
(* engine 4: Flow.names / LoopFlow.names (scope.py:82-190)                                  *)
(* ---------------------------------------------------------------------------------------- *)

(* one Flow: own binding sites, parents (direct Flow or LoopFlow(to)), and for a flow without
   parents the flow whose names the enclosing scope exposes (pscope.names) *)
Inductive parent := PDirect (i : nat) | PLoop (i : nat).
Record flow := { own : list nat; parents : list parent; outer : option nat }.
Definition fgraph := list flow.

Inductive names_res := Names (defs : list nat) | Unresolved.

Definition names_step (guard : bool) (g : fgraph) (rec : list nat -> nat -> result names_res)
  (resolving : list nat) (i : nat) : result names_res :=
  match nth_error g i with
  | None => Ok (Names [])
  | Some fl =>
      bind (match parents fl with
            | [] => match outer fl with
                    | None => Ok []
                    | Some o => bind (rec resolving o) (fun r => Ok [r])
                    end
            | ps => mapM (fun p => match p with
                                   | PDirect j => rec resolving j
                                   | PLoop j =>              (* LoopFlow.names, scope.py:171-190 *)
                                       if guard && mem j resolving then Ok Unresolved
                                       else rec (j :: resolving) j
                                   end) ps
            end) (fun rs =>
      Ok (Names (own fl ++ flat_map (fun r => match r with Names d => d | Unresolved => [] end) rs)))
  end.

Fixpoint names (fuel : nat) (guard : bool) (g : fgraph) (resolving : list nat) (i : nat) {struct fuel}
  : result names_res :=
  match fuel with
  | O => OutOfFuel
  | S f => names_step guard g (names f guard g) resolving i
  end.

(* The flow graphs nast builds: a direct parent was created before its child; the outer flow of an
   entry flow belongs to the enclosing scope, whose flows never have this scope's flows as parents.
   Both are captured by a level function read off the graph: lvl i = (scope depth, index). *)
Definition flow_wf_at (depth : nat -> nat) (g : fgraph) (i : nat) (fl : flow) : bool :=
  forallb (fun p => match p with
                    | PDirect j => (j <? i) && (depth j =? depth i)
                    | PLoop j => (j <? length g) && (depth j =? depth i)
                    end) (parents fl)
  && match outer fl with
     | None => true
     | Some o => (o <? length g) && (depth o <? depth i)
     end.

Fixpoint forallb_i {A} (f : nat -> A -> bool) (i : nat) (l : list A) : bool :=
  match l with [] => true | x :: r => f i x && forallb_i f (S i) r end.

Definition flows_wf (depth : list nat) (g : fgraph) : bool :=
  forallb_i (flow_wf_at (fun i => nth i depth 0) g) 0 g
  && forallb (fun d => d <? length g) depth && (length depth =? length g).

Definition names_fuel (g : fgraph) : nat := (length g + 1) * (length g + 1) * (length g + 1) + 1.

(* ---------------------------------------------------------------------------------------- *)
(* result shape: lint (linter.py:24-47) and location (assistant.py:97-104)                  *)
(* ---------------------------------------------------------------------------------------- *)

Inductive code := E01 | E02 | E42 | W01 | W02.
Definition code_eqb (a b : code) : bool :=
  match a, b with E01, E01 | E02, E02 | E42, E42 | W01, W01 | W02, W02 => true | _, _ => false end.

(* the parse result is an input: CPython's message / lineno / offset (either may be None) *)
Inductive parse_result := ParseOk | ParseErr (msg : list N) (lineno offset : option Z).

Record diag := { d_code : code; d_msg : list N; d_line : option Z; d_col : option Z }.

(* what the analysis of a parsed text contributes: reads (unvisited / undefined) and unused names *)
Inductive finding := FUnvisited (l c : Z) | FUndefined (l c : Z) | FUnusedName (l c : Z) | FUnusedImport (l c : Z).

Definition finding_diag (f : finding) : diag :=
  match f with
  | FUnvisited l c => {| d_code := E42; d_msg := []; d_line := Some l; d_col := Some c |}
  | FUndefined l c => {| d_code := E02; d_msg := []; d_line := Some l; d_col := Some c |}
  | FUnusedName l c => {| d_code := W01; d_msg := []; d_line := Some l; d_col := Some c |}
  | FUnusedImport l c => {| d_code := W02; d_msg := []; d_line := Some l; d_col := Some c |}
  end.

Definition lint (p : parse_result) (analysis : list finding) : list diag :=
  match p with
  | ParseErr m l c => [{| d_code := E01; d_msg := m; d_line := l; d_col := c |}]
  | ParseOk => map finding_diag analysis
  end.

Definition count_code (k : code) (l : list diag) : nat := length (filter (fun d => code_eqb (d_code d) k) l).

(* location: each declaration either has a source location (declared_at + filename) or not
   (RuntimeName, ImportedModule, a wrapper around one) *)
(* [edited] = the declaration lies in the edited text itself (n.filename == source.filename): its
   position was read off the tree of the cursor-MARKED source *)
Inductive decl_obj := Located (line col : Z) (file : option nat) (edited : bool) | Unlocated.
Inductive decl_entry := EOne (d : decl_obj) | EAlts (ds : list decl_obj).

Inductive loc_out := LOne (line col : Z) (file : option nat) | LAlts (ls : list (Z * Z * option nat)).
Inductive loc_err := LAttributeError.

(* len(SOURCE_MARK), util.py: '__supp_mark__' *)
Definition mark_len : Z := 13%Z.

(* assistant.py location/unmarked (F51): a position on the cursor's line right of the cursor was
   shifted by the cursor mark *)
Definition unmark (cur : Z * Z) (l c : Z) (edited : bool) : Z :=
  if edited && Z.eqb l (fst cur) && Z.ltb (snd cur) c then (c - mark_len)%Z else c.

Definition fmt_obj (cur : Z * Z) (d : decl_obj) : option (Z * Z * option nat) :=
  match d with Located l c f e => Some (l, unmark cur l c e, f) | Unlocated => None end.

(* assistant.py:97-104 before F17: n.declared_at / n.filename on every result *)
Fixpoint format_as_is (cur : Z * Z) (res : list decl_entry) : loc_err + list loc_out :=
  match res with
  | [] => inr []
  | EOne d :: r =>
      match fmt_obj cur d with
      | None => inl LAttributeError
      | Some (l, c, f) => match format_as_is cur r with inl e => inl e | inr o => inr (LOne l c f :: o) end
      end
  | EAlts ds :: r =>
      if forallb (fun d => match fmt_obj cur d with Some _ => true | None => false end) ds
      then match format_as_is cur r with inl e => inl e | inr o => inr (LAlts (somes (map (fmt_obj cur) ds)) :: o) end
      else inl LAttributeError
  end.

(* repaired: results without a source location are skipped; an alternative list that becomes
   empty is dropped *)
Fixpoint format_fixed (cur : Z * Z) (res : list decl_entry) : list loc_out :=
  match res with
  | [] => []
  | EOne d :: r =>
      match fmt_obj cur d with
      | None => format_fixed cur r
      | Some (l, c, f) => LOne l c f :: format_fixed cur r
      end
  | EAlts ds :: r =>
      match somes (map (fmt_obj cur) ds) with
      | [] => format_fixed cur r
      | ls => LAlts ls :: format_fixed cur r
      end
  end.

Definition loc_wf (o : loc_out) : bool :=
  match o with LOne _ _ _ => true | LAlts ls => negb (Nat.eqb (length ls) 0) end.
