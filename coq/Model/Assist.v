(* Model of the completion contract of supp.assistant.assist (C12). Definitions only; the proofs
   are in Proofs/AssistProofs.v.

   prefix            supp/assistant.py  id_suffix + assist (after fix F06; as-is splitter = Text.prefix_split)
   cursor mark       supp/util.py       Source.__init__ (SOURCE_MARK spliced into the cursor line)
   proposals         supp/assistant.py  assist: sorted(n for n in names if not marked(n))   (after fix F07)
   names_at          supp/scope.py      Flow.names_at (bisect on binding locations), util.insert_loc
   Characters are code points (N); a line is a list of code points without its newline. *)
From Coq Require Import List Bool Arith NArith Sorted.
Import ListNotations.
From Supp Require Import Model.Text.

(* ---------------------------------------------------------------------------------------------
   1. The cursor mark and the prefix
   --------------------------------------------------------------------------------------------- *)

(* util.py:326  SOURCE_MARK = '__supp_mark__'  (13 characters) *)
Definition source_mark : list N := [95; 95; 115; 117; 112; 112; 95; 109; 97; 114; 107; 95; 95]%N.
Definition mark_len : N := 13%N.

(* util.py:354-355  lines[ln-1] = line[:col] + SOURCE_MARK + line[col:] *)
Definition mark_line (line : list N) (col : nat) : list N :=
  firstn col line ++ source_mark ++ skipn col line.

(* number of leading characters of [rs] that satisfy [p]; applied to the reversed text this is the
   number of iterations of   while pos and isid(text[pos-1]): pos -= 1   (assistant.py id_suffix) *)
Fixpoint run_len (p : N -> bool) (rs : list N) : nat :=
  match rs with
  | [] => 0
  | c :: r => if p c then S (run_len p r) else 0
  end.

(* assistant.py id_suffix(text): text[pos:] with pos = len(text) - (length of the final run) *)
Definition suffix_run (p : N -> bool) (text : list N) : list N :=
  skipn (length text - run_len p (rev text)) text.

(* assistant.py assist:  line = source.lines[ln-1][:col]   (source.lines are the MARKED lines)
                         prefix = id_suffix(line)
   [p] is the identifier-character test (Python: ('_' + c).isidentifier()); Text.is_id_char is its
   restriction to ASCII. *)
Definition prefix_gen (p : N -> bool) (line : list N) (col : nat) : list N :=
  suffix_run p (firstn col (mark_line line col)).

Definition prefix_of (line : list N) (col : nat) : list N := prefix_gen is_id_char line col.

(* the pinned tree (defect F6): general branch  re.split(r'(\.|\s|\()', line)[-1] *)
Definition prefix_asis (line : list N) (col : nat) : list N :=
  prefix_split (firstn col (mark_line line col)).

(* the pinned tree, `from`-branch (assistant.py:24-29):
     iname = line.rpartition(' ')[2];  package, sep, prefix = iname.rpartition('.') *)
Definition from_prefix_asis (line : list N) : list N :=
  last_piece (fun c => (c =? 46)%N) (last_piece (fun c => (c =? 32)%N) line []) [].

(* a dotted module path: identifier characters and dots only *)
Definition is_path_char (c : N) : bool := is_id_char c || (c =? 46)%N.

(* the text after the last blank is a (possibly relative, possibly unfinished) dotted path *)
Definition dotted_tail (line : list N) : bool :=
  forallb is_path_char (last_piece (fun c => (c =? 32)%N) line []).

(* separator classes of the as-is splitter *)
Definition split_sep (c : N) : bool := (c =? 46)%N || is_space c || (c =? 40)%N.

(* the character immediately before the final identifier run (None = start of line) *)
Definition boundary (line : list N) : option N :=
  nth_error (rev line) (run_len is_id_char (rev line)).

(* ---------------------------------------------------------------------------------------------
   2. Proposals
   --------------------------------------------------------------------------------------------- *)

Definition ident := list N.

Fixpoint ident_eqb (a b : ident) : bool :=
  match a, b with
  | [], [] => true
  | x :: a', y :: b' => (x =? y)%N && ident_eqb a' b'
  | _, _ => false
  end.

(* Python's str < : lexicographic on code points *)
Fixpoint str_ltb (a b : ident) : bool :=
  match a, b with
  | _, [] => false
  | [], _ :: _ => true
  | x :: a', y :: b' => (x <? y)%N || ((x =? y)%N && str_ltb a' b')
  end.
Definition str_leb (a b : ident) : bool := negb (str_ltb b a).

(* `m in s` for strings *)
Fixpoint infixb (m s : list N) : bool :=
  prefixb m s || match s with [] => false | _ :: r => infixb m r end.

(* assistant.py assist: the branch selector of the package-listing shortcut
     line.lstrip().startswith('from ') and ' import ' not in line
   ([line] = text left of the cursor; lstrip/white space restricted to ASCII as in Text.is_space) *)
Fixpoint lstrip (s : list N) : list N :=
  match s with
  | c :: r => if is_space c then lstrip r else s
  | [] => []
  end.
Definition kw_from : list N := [102; 114; 111; 109; 32]%N.                    (* 'from ' *)
Definition kw_import : list N := [32; 105; 109; 112; 111; 114; 116; 32]%N.      (* ' import ' *)
Definition from_branch (line : list N) : bool :=
  prefixb kw_from (lstrip line) && negb (infixb kw_import line).

(* util.py:339-341 marked(name) *)
Definition is_marked (n : ident) : bool := infixb source_mark n.

Fixpoint insert_sorted (x : ident) (l : list ident) : list ident :=
  match l with
  | [] => [x]
  | y :: r => if str_leb x y then x :: l else y :: insert_sorted x r
  end.
(* sorted(...) : modelled as insertion sort; Proofs show the result is the unique sorted permutation *)
Definition sort_idents (l : list ident) : list ident := fold_right insert_sorted [] l.

(* assist (after F07):  sorted(n for n in names if not marked(n)) *)
Definition proposals (names : list ident) : list ident :=
  sort_idents (filter (fun n => negb (is_marked n)) names).

(* key view of MergedDict(d1, d2, ...) / dict / set: each key once *)
Fixpoint memb (x : ident) (l : list ident) : bool :=
  match l with [] => false | y :: r => ident_eqb x y || memb x r end.
Fixpoint dedup (l : list ident) : list ident :=
  match l with
  | [] => []
  | x :: r => if memb x r then dedup r else x :: dedup r
  end.
Definition merged_keys (dicts : list (list ident)) : list ident := dedup (concat dicts).

(* boolean recognisers used by the correspondence on observed proposal lists *)
Fixpoint strictly_sortedb (l : list ident) : bool :=
  match l with
  | [] => true
  | x :: r => match r with [] => true | y :: _ => str_ltb x y && strictly_sortedb r end
  end.
Definition clean_proposalsb (l : list ident) : bool :=
  strictly_sortedb l && forallb (fun n => negb (is_marked n)) l.

(* ---------------------------------------------------------------------------------------------
   3. Position based lookup (scope.py Flow.names_at, util.py insert_loc) and the mark as a shift
   --------------------------------------------------------------------------------------------- *)

Definition pos := (N * N)%type.                     (* (line, column) *)
Definition pos_ltb (a b : pos) : bool :=
  (fst a <? fst b)%N || ((fst a =? fst b)%N && (snd a <? snd b)%N).

Record bind := mkBind { bname : ident; bloc : pos }.  (* Name.name, Name.location *)

(* bisect.bisect_right(a, x):  lo, hi = 0, len(a)
                               while lo < hi: mid = (lo+hi)//2
                                              if x < a[mid]: hi = mid   else: lo = mid+1
   [lt e] is the outcome of  x < e.  None = fuel exhausted / index out of range (never happens
   with the fuel used below: Proofs bisect_total). *)
Fixpoint bisect_go {A} (fuel : nat) (lt : A -> bool) (a : list A) (lo hi : nat) : option nat :=
  match fuel with
  | 0 => None
  | S f =>
      if Nat.ltb lo hi then
        let mid := (lo + hi) / 2 in
        match nth_error a mid with
        | Some e => if lt e then bisect_go f lt a lo mid else bisect_go f lt a (S mid) hi
        | None => None
        end
      else Some lo
  end.
Definition bisect {A} (lt : A -> bool) (a : list A) : option nat :=
  bisect_go (S (length a)) lt a 0 (length a).

(* util.py:99-104 insert_loc (Location.__lt__ compares .location) *)
Definition insert_loc (l : list bind) (b : bind) : option (list bind) :=
  match rev l with
  | e :: _ => if pos_ltb (bloc e) (bloc b) then Some (l ++ [b])
              else match bisect (fun e => pos_ltb (bloc b) (bloc e)) l with
                   | Some i => Some (firstn i l ++ b :: skipn i l)
                   | None => None
                   end
  | [] => Some [b]                                 (* insort into the empty list *)
  end.

(* scope.py:125-128  names_at(loc): bisect(self._names, Location(loc)); keys of
   MergedDict({n.name: n for n in self._names[:idx]}, self.parent_names).
   [parent_keys] = keys of Flow.parent_names: computed from whole flows, no location involved
   (scope.py:83-123). *)
Definition names_at (own : list bind) (parent_keys : list ident) (q : pos) : option (list ident) :=
  match bisect (fun e => pos_ltb q (bloc e)) own with
  | Some idx => Some (merged_keys [map bname (firstn idx own); parent_keys])
  | None => None
  end.

(* One flow of the analysed tree in visiting order: identifier loads (visit_Name only stores the
   flow on the node: nast.py:314-317) and binding events (Flow.add_name -> insert_loc). *)
Inductive item :=
| Load (id : ident) (at_ : pos)
| Bind (b : bind).

Fixpoint own_of (its : list item) (acc : list bind) : option (list bind) :=
  match its with
  | [] => Some acc
  | Load _ _ :: r => own_of r acc
  | Bind b :: r => match insert_loc acc b with Some acc' => own_of r acc' | None => None end
  end.

(* what assist proposes for a cursor in a name read of this flow *)
Definition visible (its : list item) (parent_keys : list ident) (q : pos) : option (list ident) :=
  match own_of its [] with
  | Some own => match names_at own parent_keys q with
                | Some ks => Some (proposals ks)
                | None => None
                end
  | None => None
  end.

(* Inserting the mark at (ln, col): every position on line ln strictly right of col moves by k. *)
Definition shift_pos (ln col k : N) (p : pos) : pos :=
  if (fst p =? ln)%N && (col <? snd p)%N then (fst p, (snd p + k)%N) else p.
Definition shift_bind (f : pos -> pos) (b : bind) : bind := mkBind (bname b) (f (bloc b)).

(* the identifier with the mark spliced in at offset [off] *)
Definition mark_ident (id : ident) (off : nat) : ident :=
  firstn off id ++ source_mark ++ skipn off id.

(* the cursor (ln, col) is inside or at either end of the identifier [id] starting at [p] *)
Definition under_cursor (ln col : N) (id : ident) (p : pos) : bool :=
  (fst p =? ln)%N && (snd p <=? col)%N && (col <=? snd p + N.of_nat (length id))%N.

(* Source(source, position) seen from one flow: the load under the cursor is renamed, every later
   position on that line is shifted by the length of the mark.
   Domain: the cursor is inside or at the end of an identifier (C12's quantifier), so no node
   starts at column col. With the cursor BEFORE an identifier (offset 0) the nodes starting there
   keep their start and the locations start+1 derived from them (get_expr_end) stay in place,
   which this location-level shift does not express; those cursors are covered by the pointwise
   theorem names_at_pointwise_invariant instead (see notes/C12.md). *)
Definition mark_item (ln col : N) (it : item) : item :=
  match it with
  | Load id p => if under_cursor ln col id p
                 then Load (mark_ident id (N.to_nat (col - snd p))) p
                 else Load id (shift_pos ln col mark_len p)
  | Bind b => Bind (shift_bind (shift_pos ln col mark_len) b)
  end.

(* arbitrary renaming of loads (used to state that loads' identifiers are never inspected) *)
Definition rename_load (g : ident -> pos -> ident) (it : item) : item :=
  match it with Load id p => Load (g id p) p | Bind b => Bind b end.

(* ---------------------------------------------------------------------------------------------
   4. Specification predicates used by the theorems of Props/C12.v
   --------------------------------------------------------------------------------------------- *)

(* [r] is the maximal run of p-characters at the end of [s]: s = pre ++ r, every character of r
   satisfies p, and pre is empty or ends with a character that does not *)
Definition final_run (p : N -> bool) (s r : list N) : Prop :=
  exists pre, s = pre ++ r /\ forallb p r = true /\
              (forall pre' c, pre = pre' ++ [c] -> p c = false).

Definition str_lt (a b : ident) : Prop := str_ltb a b = true.

(* strictly increasing: every element is smaller than every later one *)
Definition strictly_sorted (l : list ident) : Prop := StronglySorted str_lt l.

(* two binding lists carry the same names and compare with their queries in the same way *)
Definition agree (q q' : pos) (b b' : bind) : Prop :=
  bname b = bname b' /\ pos_ltb q' (bloc b') = pos_ltb q (bloc b).
Fixpoint agreeb (q q' : pos) (l l' : list bind) : bool :=
  match l, l' with
  | [], [] => true
  | b :: r, b' :: r' => ident_eqb (bname b) (bname b') &&
                        Bool.eqb (pos_ltb q' (bloc b')) (pos_ltb q (bloc b)) && agreeb q q' r r'
  | _, _ => false
  end.

(* f preserves and reflects the order of positions *)
Definition order_preserving (f : pos -> pos) : Prop :=
  forall a b, pos_ltb (f a) (f b) = pos_ltb a b.

(* an item relabelling that moves binding positions by f and does anything to loads *)
Definition relabels (f : pos -> pos) (h : item -> item) : Prop :=
  forall it, match it with
             | Load _ _ => exists id p, h it = Load id p
             | Bind b => h it = Bind (shift_bind f b)
             end.
