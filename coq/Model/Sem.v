(* REF for C01-C03: what CPython binds. Big-step semantics of one scope body, fully
   non-deterministic in control (either branch, any number of loop trips, a raise at the two
   designated points of a try body), plus an executable interpreter [run] driven by an explicit
   decision list, which is what the harness compares with CPython executing the instrumented
   rendering of the same tree under the same decisions. *)
From Coq Require Import List Bool Arith NArith.
Import ListNotations.
From Supp Require Import Model.PyCore.

Inductive outcome := ONorm | ORet.

Definition trace := list (site * alt).       (* (read site, binding it obtained / None = NameError) *)

(* outcome of "a then (if normal) b" *)
Definition seq_out (o1 o2 : outcome) : outcome := match o1 with ONorm => o2 | ORet => ORet end.

Inductive exec : cmd -> renv -> trace -> outcome -> renv -> Prop :=
| ESkip p : exec Skip p [] ONorm p
| EBind d x p : exec (Bind d x) p [] ONorm (upd p x (Some d))
| ERead r x p : exec (Read r x) p [(r, p x)] ONorm p
| EReturn p : exec Return p [] ORet p
| ESeqN a b p t1 p1 t2 o p2 :
    exec a p t1 ONorm p1 -> exec b p1 t2 o p2 -> exec (Seq a b) p (t1 ++ t2) o p2
| ESeqR a b p t1 p1 : exec a p t1 ORet p1 -> exec (Seq a b) p t1 ORet p1
| EBrL a b p t o p' : exec a p t o p' -> exec (Branch a b) p t o p'
| EBrR a b p t o p' : exec b p t o p' -> exec (Branch a b) p t o p'
(* while *)
| EWhileIter t b e p tt p1 tb p2 tr o p3 :
    exec t p tt ONorm p1 -> exec b p1 tb ONorm p2 -> exec (While t b e) p2 tr o p3 ->
    exec (While t b e) p (tt ++ tb ++ tr) o p3
| EWhileRet t b e p tt p1 tb p2 :
    exec t p tt ONorm p1 -> exec b p1 tb ORet p2 -> exec (While t b e) p (tt ++ tb) ORet p2
| EWhileExit t b e p tt p1 te o p2 :
    exec t p tt ONorm p1 -> exec e p1 te o p2 -> exec (While t b e) p (tt ++ te) o p2
(* for *)
| EForIter tg b e p tt p1 tb p2 tr o p3 :
    exec tg p tt ONorm p1 -> exec b p1 tb ONorm p2 -> exec (For tg b e) p2 tr o p3 ->
    exec (For tg b e) p (tt ++ tb ++ tr) o p3
| EForRet tg b e p tt p1 tb p2 :
    exec tg p tt ONorm p1 -> exec b p1 tb ORet p2 -> exec (For tg b e) p (tt ++ tb) ORet p2
| EForExit tg b e p te o p2 :
    exec e p te o p2 -> exec (For tg b e) p te o p2
(* try: raise before the first statement of the body *)
| ETryFirst rf b rl hs e f i ty nm hb p tty p1 th o1 p2 tf o2 p3 :
    rf = true -> hnth hs i = Some (ty, nm, hb) ->
    exec ty p tty ONorm p1 -> exec hb (bind_opt_r nm p1) th o1 p2 ->
    exec f p2 tf o2 p3 ->
    exec (Try rf b rl hs e f) p (tty ++ th ++ tf) (seq_out o1 o2) p3
(* try: raise after the last statement of the body *)
| ETryLast rf b rl hs e f i ty nm hb p tb pb tty p1 th o1 p2 tf o2 p3 :
    rl = true -> hnth hs i = Some (ty, nm, hb) ->
    exec b p tb ONorm pb ->
    exec ty pb tty ONorm p1 -> exec hb (bind_opt_r nm p1) th o1 p2 ->
    exec f p2 tf o2 p3 ->
    exec (Try rf b rl hs e f) p (tb ++ tty ++ th ++ tf) (seq_out o1 o2) p3
(* try: no exception *)
| ETryElse rf b rl hs e f p tb pb te o1 p2 tf o2 p3 :
    exec b p tb ONorm pb -> exec e pb te o1 p2 -> exec f p2 tf o2 p3 ->
    exec (Try rf b rl hs e f) p (tb ++ te ++ tf) (seq_out o1 o2) p3
(* try: the body returns; finally still runs *)
| ETryBodyRet rf b rl hs e f p tb pb tf o2 p3 :
    exec b p tb ORet pb -> exec f pb tf o2 p3 ->
    exec (Try rf b rl hs e f) p (tb ++ tf) ORet p3.

(* ---- executable interpreter --------------------------------------------------------------- *)
(* Decisions are consumed left to right: Branch: 0 = body, other = orelse; While/For: asked
   before every trip, 0 = leave the loop (run else), other = one more trip; Try: when rf is set
   one decision before the body (0 = no raise, S i = raise class i, ignored when there is no
   i-th handler) and when rl is set one after a normally completed body. A read of an unbound
   name is recorded as (r, None) and the interpreter goes on (CPython stops there with a
   NameError: the harness compares traces up to and including the first such event). *)

Inductive res :=
| Done (p : renv) (tr : trace) (o : outcome) (ds : list nat)
| OutOfFuel
| NoDecision.                   (* decision list exhausted *)

Definition bind_res (r : res) (k : renv -> trace -> outcome -> list nat -> res) : res :=
  match r with
  | Done p tr o ds => k p tr o ds
  | other => other
  end.

Definition prepend (t : trace) (r : res) : res :=
  match r with
  | Done p tr o ds => Done p (t ++ tr) o ds
  | other => other
  end.

Definition pick_handler (hs : hlist) (d : nat) : option (cmd * option (site * name) * cmd) :=
  match d with O => None | S i => hnth hs i end.

Fixpoint run (fuel : nat) (c : cmd) (p : renv) (ds : list nat) : res :=
  match fuel with
  | O => OutOfFuel
  | S fuel =>
    match c with
    | Skip => Done p [] ONorm ds
    | Bind d x => Done (upd p x (Some d)) [] ONorm ds
    | Read r x => Done p [(r, p x)] ONorm ds
    | Exit KRet => Done p [] ORet ds
    | Exit _ => OutOfFuel                        (* break/continue/raise: see Model/SemX.v *)
    | Seq a b =>
        bind_res (run fuel a p ds) (fun p1 t1 o1 ds1 =>
          match o1 with
          | ORet => Done p1 t1 ORet ds1
          | ONorm => prepend t1 (run fuel b p1 ds1)
          end)
    | Branch a b =>
        match ds with
        | [] => NoDecision
        | 0 :: ds' => run fuel a p ds'
        | _ :: ds' => run fuel b p ds'
        end
    | While t b e =>
        bind_res (run fuel t p ds) (fun p1 tt ot ds1 =>
          match ot with
          | ORet => OutOfFuel                     (* excluded by [ok]: tests do not return *)
          | ONorm =>
          match ds1 with
          | [] => NoDecision
          | 0 :: ds2 => prepend tt (run fuel e p1 ds2)
          | _ :: ds2 =>
              prepend tt (bind_res (run fuel b p1 ds2) (fun p2 tb o2 ds3 =>
                match o2 with
                | ORet => Done p2 tb ORet ds3
                | ONorm => prepend tb (run fuel (While t b e) p2 ds3)
                end))
          end end)
    | For tg b e =>
        match ds with
        | [] => NoDecision
        | 0 :: ds1 => run fuel e p ds1
        | _ :: ds1 =>
            bind_res (run fuel tg p ds1) (fun p1 tt ot ds2 =>
              match ot with
              | ORet => OutOfFuel
              | ONorm =>
              prepend tt (bind_res (run fuel b p1 ds2) (fun p2 tb o2 ds3 =>
                match o2 with
                | ORet => Done p2 tb ORet ds3
                | ONorm => prepend tb (run fuel (For tg b e) p2 ds3)
                end)) end)
        end
    | Try rf b rl hs e f =>
        let handler (h : cmd * option (site * name) * cmd) (p0 : renv) (ds0 : list nat) : res :=
          match h with
          | (ty, nm, hb) =>
              bind_res (run fuel ty p0 ds0) (fun p1 tty ot ds1 =>
                match ot with
                | ORet => OutOfFuel
                | ONorm => prepend tty (run fuel hb (bind_opt_r nm p1) ds1)
                end)
          end in
        let fin (r : res) : res :=
          bind_res r (fun p2 t2 o1 ds2 =>
            prepend t2 (bind_res (run fuel f p2 ds2) (fun p3 tf o2 ds3 =>
              Done p3 tf (seq_out o1 o2) ds3))) in
        let body_and_after (ds0 : list nat) : res :=
          bind_res (run fuel b p ds0) (fun pb tb ob ds1 =>
            match ob with
            | ORet => prepend tb (bind_res (run fuel f pb ds1) (fun p3 tf _ ds3 => Done p3 tf ORet ds3))
            | ONorm =>
                if rl then
                  match ds1 with
                  | [] => NoDecision
                  | d2 :: ds2 =>
                      match pick_handler hs d2 with
                      | Some h => prepend tb (fin (handler h pb ds2))
                      | None => prepend tb (fin (run fuel e pb ds2))
                      end
                  end
                else prepend tb (fin (run fuel e pb ds1))
            end) in
        if rf then
          match ds with
          | [] => NoDecision
          | d1 :: ds0 =>
              match pick_handler hs d1 with
              | Some h => fin (handler h p ds0)
              | None => body_and_after ds0
              end
          end
        else body_and_after ds
    end
  end.
