(* C10 - unused-name diagnostics (W01/W02) follow the exemption rules exactly.
   Statements only; proofs are in Proofs/LintProofs.v. Model: Model/Lint.v
   (linter.py:40-97 usage loop + report loop over SourceScope.all_names; REF = [rule], the property text).

   FULL STATEMENT (false on the pinned tree, see C10_full_refuted):
     forall bs reads i b, nth_error bs i = Some b -> wf b = true -> (rows keyed) -> no_locals_in_scope b reads ->
       unread b reads ->
       forall x, In (i, x) (lint_unused bs reads) <-> exists w, rule b false = Some w /\ x = mk_rep b w.
   It is proved below with the extra hypothesis [in_domain b = true] (C10_partial): the binding is not an
   import statement at module/class level whose identifier is declared `global` in that same scope, and a
   `global` declaration of its identifier, if any, precedes it (only an import may precede it in CPython). *)
From Coq Require Import List Bool Arith NArith.
Import ListNotations.
From Supp Require Import Model.Lint Proofs.LintProofs.

(* One iteration of the report loop is the rule, for every kind x scope kind and for ALL names
   (the name enters only through startswith('_'), == '__future__' and the qualified set):
   an unmarked binding that reaches the loop is reported iff the rule says so, and the entry carries
   the rule's code (W01 'Unused name' / W02 'Unused import'), the binding's name and its position. *)
Theorem C10_report_is_rule : forall b q,
  wf b = true -> b_global b = false ->
  report b false q = option_map (mk_rep b) (rule b q).
Proof. exact report_is_rule. Qed.
Print Assumptions C10_report_is_rule.

(* Link lemma for the usage loop: rows are keyed by identifier, so a binding whose identifier is never
   loaded is never marked used and never enters qualified_imports - unless `locals` is read. *)
Theorem C10_unread_not_used : forall bs reads i b,
  nth_error bs i = Some b ->
  (forall r, In r reads -> row_keyed bs r /\ locals_keyed r /\ scope_attr_ok bs r) ->
  no_locals_in_scope b reads ->
  unread b reads ->
  mem_nat i (fst (usage reads)) = false /\ mem_name (b_name b) (snd (usage reads)) = false.
Proof. exact unread_not_used. Qed.
Print Assumptions C10_unread_not_used.

(* The property on the stated sub-domain: in every file, a binding whose identifier is never read is
   reported iff the rule of the property text holds for it, and the entry is its own. *)
Theorem C10_partial : forall bs reads i b,
  nth_error bs i = Some b ->
  wf b = true -> in_domain b = true ->
  (forall r, In r reads -> row_keyed bs r /\ locals_keyed r /\ scope_attr_ok bs r) ->
  no_locals_in_scope b reads ->
  unread b reads ->
  forall x, In (i, x) (lint_unused bs reads) <-> exists w, rule b false = Some w /\ x = mk_rep b w.
Proof. exact unread_reported_iff_rule. Qed.
Print Assumptions C10_partial.

(* Nothing else is reported as unused: every W01/W02 entry of any file belongs to a binding of the file
   that reached the loop unmarked, carries that binding's own name and position, and its code is the
   one the rule assigns given the qualified-imports set. *)
Theorem C10_nothing_else : forall bs reads i x,
  (forall b, In b bs -> wf b = true /\ b_gseen b = b_global b) ->
  In (i, x) (lint_unused bs reads) ->
  exists b w, nth_error bs i = Some b /\ b_global b = false /\
    mem_nat i (fst (usage reads)) = false /\
    rule b (mem_name (b_name b) (snd (usage reads))) = Some w /\ x = mk_rep b w.
Proof. exact reported_only_by_rule. Qed.
Print Assumptions C10_nothing_else.

(* Each binding is reported at most once. *)
Theorem C10_at_most_once : forall bs reads, NoDup (map fst (lint_unused bs reads)).
Proof. exact lint_unused_NoDup. Qed.
Print Assumptions C10_at_most_once.

(* What is never reported, whatever the usage information and whatever the rest of the name:
   underscore names, star imports, module/class-level non-imports, __future__ imports at module/class
   level, parameters of methods. *)
Theorem C10_never_reported : forall b u q,
  (starts_underscore (b_name b) = true
   \/ is_star (b_kind b) = true
   \/ (ignored_scope (b_own b) = true /\ is_imported (b_kind b) = false)
   \/ (ignored_scope (b_own b) = true /\ b_module b = future_name)
   \/ (is_argument (b_kind b) = true /\ b_parent b = Some SClass)) ->
  report b u q = None.
Proof. exact report_never. Qed.
Print Assumptions C10_never_reported.

(* W01 is used exactly for locals of functions/lambdas, W02 exactly for imports at module/class level. *)
Theorem C10_code_kind : forall b q w,
  rule b q = Some w ->
  (w = W01 /\ local_of_function b = true) \/ (w = W02 /\ import_at_module_or_class_level b = true).
Proof. exact rule_code. Qed.
Print Assumptions C10_code_kind.

(* The full statement (without in_domain) is false: open finding K3-C10, `global os` / `import os` at
   module level - an import at module level, never read, that the rule reports and supp does not. *)
Theorem C10_full_refuted : exists bs reads i b,
  nth_error bs i = Some b /\ wf b = true /\ unread b reads /\ no_locals_in_scope b reads /\
  (forall r, In r reads -> row_keyed bs r /\ locals_keyed r /\ scope_attr_ok bs r) /\
  rule b false = Some W02 /\ ~ (exists x, In (i, x) (lint_unused bs reads)).
Proof.
  exists [k3_binding], [], 0, k3_binding.
  destruct k3_refutes as (Hwf & Hun & Hrule & Hl).
  split; [reflexivity|]. split; [exact Hwf|]. split; [exact Hun|].
  split; [intros r []|]. split; [intros r []|]. split; [exact Hrule|].
  rewrite Hl. intros [x []].
Qed.
Print Assumptions C10_full_refuted.

(* Second shape of the same finding: `def f(): import os; global os` (CPython accepts an import before
   the declaration): os is a global, the rule reports nothing, supp reports W01 'Unused name: os'. *)
Theorem C10_full_refuted_late_global : exists bs reads i b x,
  nth_error bs i = Some b /\ wf b = true /\ unread b reads /\ no_locals_in_scope b reads /\
  rule b false = None /\ In (i, x) (lint_unused bs reads).
Proof.
  exists [k3b_binding], [], 0, k3b_binding, (mk_rep k3b_binding W01).
  destruct k3b_refutes as (Hwf & Hrule & Hl).
  split; [reflexivity|]. split; [exact Hwf|]. split; [intros r []|]. split; [intros r []|].
  split; [exact Hrule|]. rewrite Hl. left. reflexivity.
Qed.
Print Assumptions C10_full_refuted_late_global.

(* Non-vacuity: the module
     import os                      (scope 0; os never read)
     def f(a, _b): c = 1; return a  (scope 1; a read once, row [a])
     class K:                       (scope 2)
         def m(self, p): pass       (scope 3; self omitted)
     def g(): d = 1; return locals()  (scope 4: locals() marks d and nothing outside g)
   Bindings in all_names order.  The hypotheses hold; os, c, p are never read and have no locals() call
   in their own scope; exactly os (W02) and c (W01) are reported. *)
Example C10_example :
  let os_ := mkB KImport SModule None [111;115]%N [111;115]%N false false 0 1 7 in
  let f_ := mkB KDef SModule None [102]%N [] false false 0 2 4 in
  let k_ := mkB KClass SModule None [75]%N [] false false 0 5 6 in
  let g_ := mkB KDef SModule None [103]%N [] false false 0 7 4 in
  let a_ := mkB KParam SFunction (Some SModule) [97]%N [] false false 1 2 6 in
  let ub := mkB KParam SFunction (Some SModule) [95;98]%N [] false false 1 2 9 in
  let c_ := mkB KAssign SFunction (Some SModule) [99]%N [] false false 1 3 4 in
  let m_ := mkB KDef SClass (Some SModule) [109]%N [] false false 2 6 8 in
  let p_ := mkB KParam SFunction (Some SClass) [112]%N [] false false 3 6 16 in
  let d_ := mkB KAssign SFunction (Some SModule) [100]%N [] false false 4 8 4 in
  let bs := [os_; f_; k_; g_; a_; ub; c_; m_; p_; d_] in
  let reads := [mkRd [97]%N 1 (Some [ABind 4]) false false [];
                mkRd locals_name 4 (Some [AOther]) false true
                  [(Some 0, [ABind 0]); (Some 0, [ABind 1]); (Some 0, [ABind 2]); (Some 0, [ABind 3]);
                   (Some 4, [ABind 9]); (None, [AOther])]] in
  (forall r, In r reads -> row_keyed bs r /\ locals_keyed r /\ scope_attr_ok bs r) /\
  (unread os_ reads /\ no_locals_in_scope os_ reads) /\
  (unread c_ reads /\ no_locals_in_scope c_ reads) /\
  (unread p_ reads /\ no_locals_in_scope p_ reads) /\
  lint_unused bs reads = [(0, mk_rep os_ W02); (6, mk_rep c_ W01)].
Proof.
  cbv zeta. split.
  - intros r [<-|[<-|[]]]; (split; [|split]).
    + intros alts i b H. injection H as <-. intros [Hi|[]]. injection Hi as <-.
      simpl. intros Hb. injection Hb as <-. reflexivity.
    + intros H. discriminate H.
    + intros s alts i b [].
    + intros alts i b H. injection H as <-. intros [Hi|[]]. discriminate Hi.
    + intros _. reflexivity.
    + intros s alts i b Hin Ha Hb. simpl in Hin.
      repeat (destruct Hin as [Hin|Hin];
              [try discriminate Hin; injection Hin as <- <-; destruct Ha as [Ha|[]];
               try discriminate Ha; injection Ha as <-; simpl in Hb; injection Hb as <-; reflexivity|]).
      destruct Hin.
  - repeat (split; [split; [intros r [<-|[<-|[]]]; discriminate
                           | intros r [<-|[<-|[]]] H; try discriminate H; simpl; discriminate]|]).
    vm_compute. reflexivity.
Qed.
