(* C08 - the API is total.  Statements only; proofs in Proofs/EvalProofs.v, model in Model/Eval.v.

   What is proved here: TERMINATION of the four recursive engines of supp on every finite object
   graph (cyclic assignments, inheritance cycles, recursive functions, import cycles included) and
   the SHAPE of the results of lint / location.  Fuel counts the depth of the Python call stack, so
   "never OutOfFuel with fuel f(size g)" is "recursion depth bounded by f(size g)".

   What is NOT provable in a Gallina model and is established by exploration in
   harness/props/c08.py: that no Python expression of supp raises (AttributeError, KeyError, ...).
   The full property reads
       forall text pos, lint/assist/location answer, raising only SyntaxError, only when the
       cursor-marked text does not parse
   and the theorems below are its termination and result-shape part (C08 is "partial"). *)
From Coq Require Import List Bool Arith NArith ZArith.
Import ListNotations.
From Supp Require Import Model.Eval Proofs.EvalProofs.

(* ---- engine 1 + 3: EvalCtx.evaluate with its in-progress set, and the attribute tables with
   the in-progress marker (repaired code), for every graph, every node, every in-progress state,
   every fuel from eval_fuel g = 3 * size g + 1 upwards. *)
Theorem C08_eval_total : forall c g fuel s n,
  guard_attrs c = true -> eval_fuel g <= fuel -> eval fuel c g s n <> OutOfFuel.
Proof. exact eval_total. Qed.
Print Assumptions C08_eval_total.

Theorem C08_class_attrs_total : forall c g fuel s k,
  guard_attrs c = true -> eval_fuel g <= fuel -> cattrs fuel c g s k <> OutOfFuel.
Proof. exact cattrs_total. Qed.
Print Assumptions C08_class_attrs_total.

Theorem C08_instance_attrs_total : forall c g fuel s k,
  guard_attrs c = true -> eval_fuel g <= fuel -> iattrs fuel c g s k <> OutOfFuel.
Proof. exact iattrs_total. Qed.
Print Assumptions C08_instance_attrs_total.

(* ---- engine 2: declarations with the visited check, on graphs typed as nast/scope build them
   (the predicate [typed] is evaluated on every dumped graph by the correspondence). *)
Theorem C08_decl_total : forall c g efuel fuel n,
  typed g = true -> guard_attrs c = true -> decl_visited c = true ->
  eval_fuel g <= efuel -> decl_fuel g <= fuel ->
  decl fuel c g efuel [] n <> OutOfFuel.
Proof. exact decl_total. Qed.
Print Assumptions C08_decl_total.

(* ---- engine 4: Flow.names / LoopFlow.names with the _resolving flag on well-levelled flow graphs
   ([flows_wf] is evaluated on every dumped flow graph by the correspondence). *)
Theorem C08_names_total : forall g depth fuel i,
  flows_wf depth g = true -> names_fuel g <= fuel -> names fuel true g [] i <> OutOfFuel.
Proof. intros g depth fuel i H. exact (names_total g depth H fuel i). Qed.
Print Assumptions C08_names_total.

(* ---- refutations on the pinned tree: for EVERY fuel the faithful model runs out of it -------- *)

(* F21: import cycle m1 <-> m2 under `location`: declarations has no visited set *)
Theorem C08_decl_refuted : forall fuel efuel,
  decl fuel cfg_as_is decl_witness efuel [] 0 = OutOfFuel.
Proof. intros fuel efuel. apply decl_as_is_diverges. auto. Qed.
Print Assumptions C08_decl_refuted.

(* F29: class A(B) / class B(A) across two modules, query `A.attr`: ClassObject._attrs unguarded *)
Theorem C08_attrs_refuted : forall fuel,
  eval fuel cfg_as_is attrs_witness prog0 4 = OutOfFuel.
Proof. exact eval_as_is_diverges. Qed.
Print Assumptions C08_attrs_refuted.

(* F30: a base class with alternatives: AttributeError as-is, an answer when repaired *)
Theorem C08_bases_refuted :
  eval (eval_fuel comp_witness) cfg_as_is comp_witness prog0 5 = Err EAttrError /\
  eval (eval_fuel comp_witness) cfg_fixed comp_witness prog0 5 = Ok (Some (VAtom (ARuntime false))).
Proof. split; [exact comp_witness_as_is|exact comp_witness_fixed]. Qed.
Print Assumptions C08_bases_refuted.

(* the _resolving flag is what makes loop resolution terminate *)
Theorem C08_loop_flag_needed : forall fuel,
  names fuel false loop_witness [] 1 = OutOfFuel.
Proof. intros fuel. apply names_unguarded_diverges. auto. Qed.
Print Assumptions C08_loop_flag_needed.

(* Open findings F48 / F50: termination is proved, a constant stack bound is NOT true: for every
   limit L there is a well-levelled flow graph (L+1 sequential flows) whose resolution needs more
   than L nested calls.  On CPython (limit 1000, ~14 frames per sequential `if`) this is a
   RecursionError after ~85 sequential if statements; see corpus/C08/known_F48.json. *)
Theorem C08_depth_unbounded : forall L, exists g depth i,
  flows_wf depth g = true /\ names L true g [] i = OutOfFuel.
Proof. exact depth_unbounded. Qed.
Print Assumptions C08_depth_unbounded.

(* ---- result shape ----------------------------------------------------------------------- *)

(* exactly one E01 iff the text does not parse, carrying CPython's message and position, and then
   nothing else; otherwise no E01 and every diagnostic has a position *)
Theorem C08_lint_E01_iff : forall p a, count_code E01 (lint p a) = 1 <-> p <> ParseOk.
Proof. exact lint_E01_iff. Qed.
Print Assumptions C08_lint_E01_iff.

Theorem C08_lint_E01_exact : forall m l c a,
  lint (ParseErr m l c) a = [{| d_code := E01; d_msg := m; d_line := l; d_col := c |}].
Proof. exact lint_E01_exact. Qed.
Print Assumptions C08_lint_E01_exact.

Theorem C08_lint_ok_shape : forall a d, In d (lint ParseOk a) ->
  d_code d <> E01 /\ (exists l c, d_line d = Some l /\ d_col d = Some c).
Proof. exact lint_ok_positions. Qed.
Print Assumptions C08_lint_ok_shape.

(* location: the repaired formatting never fails, never emits an empty alternative list, and
   agrees with the pinned formatting wherever that one does not fail; the pinned one fails (F17) *)
Theorem C08_location_shape : forall cur res,
  forallb loc_wf (format_fixed cur res) = true /\
  forall out, (forall ds, In (EAlts ds) res -> ds <> []) ->
              format_as_is cur res = inr out -> format_fixed cur res = out.
Proof. intros cur res. split; [apply format_fixed_wf|intros out; apply format_fixed_conservative]. Qed.
Print Assumptions C08_location_shape.

(* the reported column (F51): shifted back by the length of the cursor mark exactly for declarations
   of the edited text on the cursor's line right of the cursor, unchanged otherwise *)
Theorem C08_location_unmark : forall cur l c e,
  (e = true /\ l = fst cur /\ (snd cur < c)%Z -> unmark cur l c e = (c - mark_len)%Z) /\
  (e = false \/ l <> fst cur \/ (c <= snd cur)%Z -> unmark cur l c e = c).
Proof. exact unmark_spec. Qed.
Print Assumptions C08_location_unmark.

Theorem C08_location_refuted : forall cur, exists res, format_as_is cur res = inl LAttributeError.
Proof. exact format_as_is_refuted. Qed.
Print Assumptions C08_location_refuted.

(* ---- non-vacuity ------------------------------------------------------------------------- *)

(* mutually recursive single-return functions f() -> g() -> f(), a cyclic assignment a = b / b = a
   (loop-carried), and the query f().x :
     0: def f: return [2]   1: def g: return [4]   2: Call 3   3: Name g -> 1   4: Call 5
     5: Name f -> 0         6: AssignedName a = [7]  7: Name b -> 8   8: AssignedName b = [9]
     9: Name a -> 6         10: Call 5 (the query f())   11: Name a -> 6 (the query a)
   the graph is typed, both queries terminate with None (the cycle is cut by the in-progress set),
   and the repaired engines answer the witnesses of F21 / F29. *)
Example C08_example :
  let g := [NFunc [2]; NFunc [4]; NCall 3; NRef (Some 1); NCall 5; NRef (Some 0);
            NAssigned 7; NRef (Some 8); NAssigned 9; NRef (Some 6); NCall 5; NRef (Some 6)] in
  typed g = true /\
  eval (eval_fuel g) cfg_fixed g prog0 10 = Ok None /\
  eval (eval_fuel g) cfg_fixed g prog0 11 = Ok None /\
  eval (eval_fuel g) cfg_fixed g prog0 5 = Ok (Some (VAtom (AFunc 0))) /\
  decl (decl_fuel g) cfg_fixed g (eval_fuel g) [] 11 = Ok [DOne 6] /\
  decl (decl_fuel decl_witness) cfg_fixed decl_witness (eval_fuel decl_witness) [] 0 = Ok [DOne 0; DOne 1] /\
  eval (eval_fuel attrs_witness) cfg_fixed attrs_witness prog0 4 = Ok None /\
  flows_wf [0; 0; 0] loop_witness = true /\
  names (names_fuel loop_witness) true loop_witness [] 1 = Ok (Names []).
Proof. vm_compute. repeat split; reflexivity. Qed.

(* an inheritance chain answers an attribute through the tables: class A: x = 1; class B(A); B().x *)
Example C08_example_attrs :
  let g := [NClass [] [(1%N, 1)]; NAssigned 2; NConst false; NClass [4] []; NRef (Some 0);
            NAttr 6 1%N; NCall 7; NRef (Some 3)] in
  typed g = true /\ eval (eval_fuel g) cfg_fixed g prog0 5 = Ok (Some (VAtom (ARuntime false))) /\
  eval (eval_fuel g) cfg_as_is g prog0 5 = Ok (Some (VAtom (ARuntime false))).
Proof. vm_compute. repeat split; reflexivity. Qed.

Example C08_example_lint :
  lint (ParseErr [105; 110]%N (Some 1%Z) (Some 3%Z) ) [FUndefined 1 0] =
    [{| d_code := E01; d_msg := [105; 110]%N; d_line := Some 1%Z; d_col := Some 3%Z |}] /\
  count_code E01 (lint ParseOk [FUndefined 1 0; FUnusedImport 2 7]) = 0 /\
  format_fixed (1%Z, 3%Z) [EOne Unlocated; EOne (Located 1 20 (Some 0) true); EOne (Located 1 20 (Some 1) false);
                            EAlts [Unlocated; Located 2 0 None true]] =
    [LOne 1 7 (Some 0); LOne 1 20 (Some 1); LAlts [(2%Z, 0%Z, None)]].
Proof. vm_compute. repeat split; reflexivity. Qed.
