(* C12 - completion contract: exact prefix, clean sorted proposals, transparent cursor.
   Statements only; proofs are in Proofs/AssistProofs.v. Models: Model/Assist.v (assistant.py assist /
   id_suffix, util.py Source mark, scope.py Flow.names_at + util.insert_loc) and Model/Text.v
   (prefix_split = the pinned splitter, id_suffix = the reference). *)
From Coq Require Import List Bool Arith NArith Permutation.
Import ListNotations.
From Supp Require Import Model.Text Model.Assist Proofs.AssistProofs.

(* ---- prefix ------------------------------------------------------------------------------- *)

(* For every line and every cursor column inside it, the prefix the (repaired) code returns is the
   reference: the last piece of the text left of the cursor after the last non-identifier char. *)
Theorem C12_prefix_exact : forall line col, col <= length line ->
  prefix_of line col = id_suffix (firstn col line).
Proof. exact prefix_of_correct. Qed.
Print Assumptions C12_prefix_exact.

(* The same for any identifier-character test p (Python: ('_' + c).isidentifier()); is_id_char is
   its ASCII restriction. *)
Theorem C12_prefix_exact_any_alphabet : forall p line col, col <= length line ->
  prefix_gen p line col = last_piece (fun c => negb (p c)) (firstn col line) [].
Proof. exact prefix_gen_correct. Qed.
Print Assumptions C12_prefix_exact_any_alphabet.

(* The reference means what the contract says: id_suffix line is THE r with line = pre ++ r, r all
   identifier characters, pre empty or ending in a non-identifier character. *)
Theorem C12_reference_is_longest_run : forall line r,
  final_run is_id_char line r <-> r = id_suffix line.
Proof.
  intros line r. split.
  - intros H. symmetry. apply id_suffix_unique; exact H.
  - intros ->. apply id_suffix_final_run.
Qed.
Print Assumptions C12_reference_is_longest_run.

(* The pinned splitter (defect F6) is wrong: x=fo *)
Theorem C12_prefix_refuted : exists line, prefix_split line <> id_suffix line.
Proof. exact prefix_split_refuted. Qed.
Print Assumptions C12_prefix_refuted.

(* ... and it is wrong exactly when the character before the identifier run is not one of its
   three separator classes: with line = pre ++ run it returns the run if pre is empty or ends in
   '.', white space or '('; after every other non-identifier character it returns strictly more. *)
Theorem C12_prefix_split_characterised : forall line,
  exists pre, line = pre ++ id_suffix line /\
    (pre = [] -> prefix_split line = id_suffix line) /\
    (forall pre' b, pre = pre' ++ [b] ->
       is_id_char b = false /\
       (split_sep b = true -> prefix_split line = id_suffix line) /\
       (split_sep b = false -> length (id_suffix line) < length (prefix_split line))).
Proof. exact prefix_split_characterised. Qed.
Print Assumptions C12_prefix_split_characterised.

(* `from`-branch of the pinned tree: right on dotted module paths ... *)
Theorem C12_from_prefix_dotted : forall line, dotted_tail line = true ->
  from_prefix_asis line = id_suffix line.
Proof. exact from_prefix_asis_dotted. Qed.
Print Assumptions C12_from_prefix_dotted.

(* ... and wrong otherwise:  from os import(pa  ->  "import(pa" *)
Theorem C12_from_prefix_refuted : exists line, from_prefix_asis line <> id_suffix line.
Proof. exact from_prefix_asis_refuted. Qed.
Print Assumptions C12_from_prefix_refuted.

(* Branch selector of the package-listing shortcut (the half-typed line does not parse, so this
   branch must be taken): every line  <indentation> from X  with X any dotted identifier path -
   empty, relative, unfinished, starting with the letters "import", "from", "as" ... - takes it. *)
Theorem C12_from_shortcut_taken : forall indent X,
  forallb is_space indent = true -> forallb is_path_char X = true ->
  from_branch (indent ++ kw_from ++ X) = true.
Proof. exact from_branch_taken. Qed.
Print Assumptions C12_from_shortcut_taken.

(* ... and no line in which ` import ` has been typed does. *)
Theorem C12_from_shortcut_left : forall a b, from_branch (a ++ kw_import ++ b) = false.
Proof. exact from_branch_after_import. Qed.
Print Assumptions C12_from_shortcut_left.

(* "    from importlib.ut" takes the shortcut, "from importlib import ut" does not *)
Example C12_example_from_branch :
  from_branch [32; 32; 32; 32; 102; 114; 111; 109; 32; 105; 109; 112; 111; 114; 116; 108; 105; 98; 46; 117; 116]%N = true /\
  from_branch [102; 114; 111; 109; 32; 105; 109; 112; 111; 114; 116; 108; 105; 98; 32; 105; 109; 112; 111; 114; 116; 32; 117; 116]%N = false.
Proof. vm_compute. split; reflexivity. Qed.

(* ---- proposals ---------------------------------------------------------------------------- *)

(* For EVERY list of names: no proposal contains the cursor mark, and the proposals are exactly the
   unmarked names. *)
Theorem C12_proposals_no_mark : forall names x, In x (proposals names) ->
  In x names /\ ~ exists a b, x = a ++ source_mark ++ b.
Proof.
  intros names x H. split; [apply proposals_mem in H; tauto|]. eapply proposals_no_mark; exact H.
Qed.
Print Assumptions C12_proposals_no_mark.

Theorem C12_proposals_complete : forall names x,
  In x names -> is_marked x = false -> In x (proposals names).
Proof. intros names x H1 H2. apply proposals_mem. tauto. Qed.
Print Assumptions C12_proposals_complete.

(* For every duplicate free key view (dict, set): strictly sorted, hence duplicate free. *)
Theorem C12_proposals_sorted_nodup : forall names, NoDup names ->
  strictly_sorted (proposals names) /\ NoDup (proposals names).
Proof. intros names H. split; [apply proposals_sorted|apply proposals_NoDup]; exact H. Qed.
Print Assumptions C12_proposals_sorted_nodup.

(* For every MergedDict (what names_at returns), unconditionally. *)
Theorem C12_proposals_of_merged : forall dicts,
  strictly_sorted (proposals (merged_keys dicts)) /\ NoDup (proposals (merged_keys dicts)) /\
  forall x, In x (proposals (merged_keys dicts)) <->
            (exists d, In d dicts /\ In x d) /\ is_marked x = false.
Proof.
  intros dicts. pose proof (merged_keys_NoDup dicts) as H.
  split; [apply proposals_sorted; exact H|]. split; [apply proposals_NoDup; exact H|].
  intros x. rewrite proposals_mem, merged_keys_In. tauto.
Qed.
Print Assumptions C12_proposals_of_merged.

(* `sorted` may be any correct sorting algorithm: a strictly sorted permutation is unique. *)
Theorem C12_sorted_unique : forall l1 l2,
  strictly_sorted l1 -> strictly_sorted l2 -> Permutation l1 l2 -> l1 = l2.
Proof. intros l1 l2. apply strictly_sorted_unique. Qed.
Print Assumptions C12_sorted_unique.

(* The boolean recogniser evaluated by the correspondence on every observed proposal list. *)
Theorem C12_recogniser_sound : forall l, clean_proposalsb l = true <->
  strictly_sorted l /\ NoDup l /\ forall x, In x l -> ~ exists a b, x = a ++ source_mark ++ b.
Proof. exact clean_proposalsb_spec. Qed.
Print Assumptions C12_recogniser_sound.

(* ---- mark transparency -------------------------------------------------------------------- *)

(* names_at is determined by how the query compares with the binding locations of the flow. *)
Theorem C12_lookup_order_invariant : forall f own pk q q',
  (forall b, In b own -> pos_ltb q' (f (bloc b)) = pos_ltb q (bloc b)) ->
  names_at (map (shift_bind f) own) pk q' = names_at own pk q.
Proof. exact names_at_order_invariant. Qed.
Print Assumptions C12_lookup_order_invariant.

(* Most general form: two binding lists with the same names in the same order whose elements
   compare with the respective query in the same way give the same visible names. *)
Theorem C12_lookup_pointwise_invariant : forall own own' pk q q',
  Forall2 (agree q q') own own' -> names_at own' pk q' = names_at own pk q.
Proof. exact names_at_pointwise_invariant. Qed.
Print Assumptions C12_lookup_pointwise_invariant.

Theorem C12_agree_recogniser : forall q q' l l',
  agreeb q q' l l' = true <-> Forall2 (agree q q') l l'.
Proof. exact agreeb_spec. Qed.
Print Assumptions C12_agree_recogniser.

(* The whole lookup (building the sorted binding list with insert_loc, bisect, merge, proposals)
   is invariant under any order preserving relabelling of positions, whatever happens to loads. *)
Theorem C12_visible_order_invariant : forall f h its pk q,
  order_preserving f -> relabels f h ->
  visible (map h its) pk (f q) = visible its pk q.
Proof. exact visible_order_invariant. Qed.
Print Assumptions C12_visible_order_invariant.

(* The identifier text of a load is never inspected. *)
Theorem C12_loads_not_inspected : forall g its pk q,
  visible (map (rename_load g) its) pk q = visible its pk q.
Proof. exact visible_ignores_load_identifiers. Qed.
Print Assumptions C12_loads_not_inspected.

(* Splicing the mark in at (ln, col) - renaming the load under the cursor and moving every later
   position of that line by 13 - does not change what is visible at the cursor, nor at any other
   node (looked up at its moved position). *)
Theorem C12_mark_transparent : forall ln col its pk,
  visible (map (mark_item ln col) its) pk (ln, col) = visible its pk (ln, col).
Proof. exact mark_transparent. Qed.
Print Assumptions C12_mark_transparent.

Theorem C12_mark_transparent_anywhere : forall ln col its pk q,
  visible (map (mark_item ln col) its) pk (shift_pos ln col mark_len q) = visible its pk q.
Proof. exact mark_transparent_anywhere. Qed.
Print Assumptions C12_mark_transparent_anywhere.

Theorem C12_mark_shift_order_preserving : forall ln col k, order_preserving (shift_pos ln col k).
Proof. exact shift_pos_order. Qed.
Print Assumptions C12_mark_shift_order_preserving.

(* The model's error value (fuel of the binary search) is never produced. *)
Theorem C12_lookup_total : forall its pk q, exists ps, visible its pk q = Some ps.
Proof. exact visible_total. Qed.
Print Assumptions C12_lookup_total.

(* On a list whose comparison outcomes are false..false true..true (a sorted _names list) the
   binary search returns the boundary: names_at sees exactly the bindings not after the query. *)
Theorem C12_bisect_boundary : forall (lt : bind -> bool) a k, k <= length a ->
  (forall i e, nth_error a i = Some e -> lt e = negb (Nat.ltb i k)) ->
  bisect lt a = Some k.
Proof. intros lt a k. apply bisect_boundary. Qed.
Print Assumptions C12_bisect_boundary.

(* Declarative meaning of the lookup (insert_loc keeps the list sorted, bisect finds the boundary):
   the proposals at q are exactly the unmarked names inherited from the parents or bound in this
   flow at or before q. *)
Theorem C12_visible_spec : forall its pk q ps, visible its pk q = Some ps ->
  forall x, In x ps <->
    is_marked x = false /\
    (In x pk \/ exists b, In (Bind b) its /\ bname b = x /\ pos_ltb q (bloc b) = false).
Proof. exact visible_spec. Qed.
Print Assumptions C12_visible_spec.

(* ---- non-vacuity -------------------------------------------------------------------------- *)

(* "x = foo(ba" with the cursor at the end: prefix "ba"; the pinned splitter agrees here ('(') *)
Example C12_example_prefix :
  let line := [120; 32; 61; 32; 102; 111; 111; 40; 98; 97]%N in
  prefix_of line 10 = [98; 97]%N /\ prefix_asis line 10 = [98; 97]%N /\
  prefix_of line 7 = [102; 111; 111]%N /\
  (* x=fo| : repaired "fo", pinned "x=fo" *)
  prefix_of [120; 61; 102; 111]%N 4 = [102; 111]%N /\
  prefix_asis [120; 61; 102; 111]%N 4 = [120; 61; 102; 111]%N.
Proof. vm_compute. repeat split; reflexivity. Qed.

(* a column beyond the end of the line is outside the theorem's domain: the prefix then contains
   characters of the mark ("ab" with col 6 -> "ab__su") *)
Example C12_example_out_of_range :
  prefix_of [97; 98]%N 6 = [97; 98; 95; 95; 115; 117]%N.
Proof. vm_compute. reflexivity. Qed.

(* names {"b", "a__supp_mark__c", "ab", "a"} -> ["a"; "ab"; "b"] *)
Example C12_example_proposals :
  proposals [[98]; [97; 95; 95; 115; 117; 112; 112; 95; 109; 97; 114; 107; 95; 95; 99]; [97; 98]; [97]]%N
  = [[97]; [97; 98]; [98]]%N.
Proof. vm_compute. reflexivity. Qed.

(* one flow of   a = 1; print(a|b); b = 2; ab = 3   on line 1 with the cursor at column 14:
   unmarked and marked analyses both see exactly "a" (and the parent key "z"); the hypotheses of
   C12_visible_order_invariant are met by the mark shift (C12_mark_shift_order_preserving). *)
Example C12_example_transparent :
  let its := [Bind (mkBind [97]%N (1, 5)%N); Load [97; 98]%N (1, 13)%N;
              Bind (mkBind [98]%N (1, 22)%N); Bind (mkBind [97; 98]%N (1, 30)%N)] in
  visible its [[122]%N] (1, 14)%N = Some [[97]; [122]]%N /\
  visible (map (mark_item 1 14) its) [[122]%N] (1, 14)%N = Some [[97]; [122]]%N /\
  map (mark_item 1 14) its =
    [Bind (mkBind [97]%N (1, 5)%N);
     Load [97; 95; 95; 115; 117; 112; 112; 95; 109; 97; 114; 107; 95; 95; 98]%N (1, 13)%N;
     Bind (mkBind [98]%N (1, 35)%N); Bind (mkBind [97; 98]%N (1, 43)%N)].
Proof. vm_compute. repeat split; reflexivity. Qed.
