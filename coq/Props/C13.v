(* C13 - the analysis depends on program structure, not on layout.
   Statements only; proofs in Proofs/LayoutProofs.v and Proofs/FlowGraphProofs.v.
   Models: Model/Layout.v (util.py insert_loc, scope.py bisect), Model/FlowGraph.v.
   Proved: the reduction "outputs can differ only if some comparison of positions differs".
   The premise (two layouts of one AST are order_equiv, given supp's choice of locations:
   get_expr_end, first-body-statement positions ...) is a claim about CPython's position
   assignment; harness/props/c13.py evaluates order_equivb / read_equivb on every pair of layouts. *)
From Coq Require Import List Bool Arith NArith PArith FMapPositive.
Import ListNotations.
From Supp Require Import Model.Layout Model.FlowGraph Proofs.LayoutProofs Proofs.FlowGraphProofs.

(* Flow._names after the same sequence of add_name calls is the same list under any two
   comparisons that agree on the bindings involved (insert_loc and insort use nothing else). *)
Theorem C13_own_order : forall (A : Type) (lt1 lt2 : A -> A -> bool) created,
  agree_on created lt1 lt2 -> build lt1 created = build lt2 created.
Proof. exact @build_ext. Qed.
Print Assumptions C13_own_order.

(* For every flow graph (flows with bindings in creation order, parents, scope entry rules), every
   two position assignments that order the (binding, binding) pairs of each flow identically, and
   every read whose position compares identically with the bindings of its flow: the lookup gives
   the same outcome - both out of fuel, both KeyError, or rows with the same set of binding
   identities. *)
Theorem C13_layout_independent : forall km1 km2 sfs lps fuel f loc1 loc2 n,
  order_equiv km1 km2 sfs -> read_equiv km1 km2 sfs f loc1 loc2 ->
  match query_pure (place_graph km1 sfs lps) km1 fuel (f, loc1, n),
        query_pure (place_graph km2 sfs lps) km2 fuel (f, loc2, n) with
  | Some (Some r1), Some (Some r2) => forall a, In a r1 <-> In a r2
  | Some None, Some None => True
  | None, None => True
  | _, _ => False
  end.
Proof.
  intros km1 km2 sfs lps fuel f loc1 loc2 n Ho Hr.
  assert (H := layout_independent km1 km2 sfs lps fuel f loc1 loc2 n Ho Hr).
  destruct (query_pure (place_graph km1 sfs lps) km1 fuel (f, loc1, n)) as [[r1|]|],
           (query_pure (place_graph km2 sfs lps) km2 fuel (f, loc2, n)) as [[r2|]|]; simpl in H; auto.
Qed.
Print Assumptions C13_layout_independent.

(* the boolean premises the harness evaluates imply the propositional ones *)
Theorem C13_premises_decidable : forall km1 km2 sfs f loc1 loc2,
  order_equivb km1 km2 sfs = true -> read_equivb km1 km2 sfs f loc1 loc2 = true ->
  order_equiv km1 km2 sfs /\ read_equiv km1 km2 sfs f loc1 loc2.
Proof.
  intros. split; [apply order_equivb_sound|apply read_equivb_sound]; assumption.
Qed.
Print Assumptions C13_premises_decidable.

(* Non-vacuity: `y = 1` / `if c:` / `    x = 2` / `x = 3` / `x; y` against the one-line-ish layout
   `y = 1; c and 0` ... : two different position assignments of one graph satisfy the premises and
   the read sees the same two bindings.  Flow 0 holds y (created first) and the later x;
   flow 1 (if) holds x; flow 2 (else) is empty; flow 3 joins them and holds x = 3 created
   after the read position. *)
Example C13_example :
  let x := 1%positive in let y := 2%positive in
  let sfs := [ mkSFlow [mkBind y 1%positive] [] [] None;
               mkSFlow [mkBind x 2%positive] [Direct 0] [] None;
               mkSFlow [] [Direct 0] [] None;
               mkSFlow [mkBind x 3%positive; mkBind y 4%positive] [Direct 1; Direct 2] [] None ] in
  let km1 := kmap_of_list [(1%positive, ((1%N, 5%N), (1%N, 0%N))); (2%positive, ((3%N, 9%N), (3%N, 4%N))); (3%positive, ((5%N, 5%N), (5%N, 0%N))); (4%positive, ((4%N, 5%N), (4%N, 0%N)))] in
  let km2 := kmap_of_list [(1%positive, ((1%N, 5%N), (1%N, 0%N))); (2%positive, ((2%N, 11%N), (2%N, 6%N))); (3%positive, ((3%N, 12%N), (3%N, 7%N))); (4%positive, ((3%N, 5%N), (3%N, 0%N)))] in
  order_equivb km1 km2 sfs = true /\
  read_equivb km1 km2 sfs 3 (4, 8)%N (3, 6)%N = true /\
  build (bind_lt km1) [mkBind x 3%positive; mkBind y 4%positive] = [mkBind y 4%positive; mkBind x 3%positive] /\
  query_pure (place_graph km1 sfs []) km1 10 (3, (4, 8)%N, x) = Some (Some [AUndef; ADef 2%positive]) /\
  query_pure (place_graph km2 sfs []) km2 10 (3, (3, 6)%N, x) = Some (Some [AUndef; ADef 2%positive]).
Proof. vm_compute. repeat split; reflexivity. Qed.

(* The read premise cannot be dropped: the positions supp assigns to the two layouts
   "y = 0" followed by a call of f with the keyword c=(y := 1) written before the starred argument y,
   and its ast.unparse form, which writes the starred argument first (open finding
   C13-KW-STAR-WALRUS, corpus/C13/known_C13-KW-STAR-WALRUS.json) order the bindings identically but
   not the read of y against the walrus, and the answers differ. *)
Theorem C13_full_refuted : exists km1 km2 sfs lps fuel f loc1 loc2 n,
  order_equiv km1 km2 sfs /\
  exists r1 r2, query_pure (place_graph km1 sfs lps) km1 fuel (f, loc1, n) = Some (Some r1) /\
                query_pure (place_graph km2 sfs lps) km2 fuel (f, loc2, n) = Some (Some r2) /\
                ~ (forall a, In a r1 <-> In a r2).
Proof.
  exists (kmap_of_list [(1%positive, ((1%N, 5%N), (1%N, 0%N))); (2%positive, ((2%N, 11%N), (2%N, 5%N)))]).
  exists (kmap_of_list [(1%positive, ((1%N, 5%N), (1%N, 0%N))); (2%positive, ((2%N, 15%N), (2%N, 10%N)))]).
  exists [mkSFlow [mkBind 1%positive 1%positive; mkBind 1%positive 2%positive] [] [] None], [], 5, 0.
  exists (2%N, 15%N), (2%N, 3%N), 1%positive.
  split.
  - apply order_equivb_sound. vm_compute. reflexivity.
  - exists [ADef 2%positive], [ADef 1%positive]. split; [vm_compute; reflexivity|].
    split; [vm_compute; reflexivity|].
    intros H. destruct (proj1 (H (ADef 2%positive)) (or_introl eq_refl)) as [E|[]]. discriminate.
Qed.
Print Assumptions C13_full_refuted.
