(* C04 - answers do not depend on which positions were queried before.
   Statements only; proofs in Proofs/MemoProofs.v.  Models: Model/Memo.v (loop_memo of scope.py in
   state-passing style), Model/FlowGraph.v (memo-free meaning). *)
From Coq Require Import List Bool Arith NArith PArith FMapPositive.
Import ListNotations.
From Supp Require Import Model.Layout Model.FlowGraph Model.Memo Proofs.MemoProofs.

(* F1 witness  `for x in xs: / if c: w = 2 / else: pass / print(w) / w = 1`
   flows: 0 top, 1 for (x; parents top and the loop back edge to 4), 2 if (w = 2), 3 else,
   4 join (w = 1, added after the read), 5 for-else, 6 join.  names: x = 1, w = 2, c = 3. *)
Definition f1_graph : graph :=
  mkGraph [ mkFlow [] [] [] None;
            mkFlow [mkBind 1 1] [Direct 0; Loop 0] [] None;
            mkFlow [mkBind 2 2] [Direct 1] [] None;
            mkFlow [] [Direct 1] [] None;
            mkFlow [mkBind 2 3] [Direct 2; Direct 3] [] None;
            mkFlow [] [Direct 0; Direct 4] [] None;
            mkFlow [] [Direct 5] [] None ]%positive [4].
Definition f1_keys : keymap :=
  kmap_of_list [(1%positive, ((2%N, 4%N), (1%N, 4%N))); (2%positive, ((3%N, 13%N), (3%N, 8%N)));
                (3%positive, ((7%N, 9%N), (7%N, 4%N)))].
Definition f1_read_c : query := (1, (2%N, 7%N), 3%positive).
Definition f1_read_w : query := (4, (6%N, 10%N), 2%positive).

(* FULL STATEMENT (the property on the model; NOT proved in full generality here):

     forall g km fuel h q st a st',
       run_history false g km fuel init_state h = Some st ->
       query_memo g km fuel st q = Some (a, st') ->
       exists n, forall m, n <= m -> query_pure g km m q = Some a.

   i.e. for every flow graph (any size, any loop nesting), every list of earlier queries h and every
   query q, the memoised answer is the memo-free answer (for every sufficiently large fuel).
   What is proved below: the statement for every graph WITHOUT loop parents (C04_memo_transparent_partial,
   any size, any history, scope entry rules included), fuel monotonicity of the memo-free meaning,
   and the refutation of the old policy.  For graphs with loops the statement is established only
   by the correspondence histories of harness/props/c04.py (see notes/C04.md, which also records
   why the per-layer invariant planned in DESIGN.md 5/C04 is not the right one for nested loops). *)

(* Memo transparency on graphs without loop parents: whatever was asked before, the memoised
   answer is the memo-free answer at every sufficiently large fuel. *)
Theorem C04_memo_transparent_partial : forall g km fuel h q st a st',
  no_loopsb g = true ->
  run_history false g km fuel init_state h = Some st ->
  query_memo g km fuel st q = Some (a, st') ->
  exists n, forall m, n <= m -> query_pure g km m q = Some a.
Proof. exact memo_transparent_noloops. Qed.
Print Assumptions C04_memo_transparent_partial.

(* An answer of the memo-free evaluation never changes when more fuel is given: "out of fuel" is
   the only effect of the fuel parameter. *)
Theorem C04_fuel_monotone : forall g km n m q a,
  n <= m -> query_pure g km n q = Some a -> query_pure g km m q = Some a.
Proof. exact query_pure_mono. Qed.
Print Assumptions C04_fuel_monotone.

(* Non-vacuity of the partial theorem: `if c: w = 2 / else: pass / print(w)` (no loop), asked after
   two other queries. *)
Example C04_partial_example :
  let g := mkGraph [ mkFlow [] [] [] None;
                     mkFlow [mkBind 2 2] [Direct 0] [] None;
                     mkFlow [] [Direct 0] [] None;
                     mkFlow [mkBind 2 3] [Direct 1; Direct 2] [] None ]%positive [] in
  no_loopsb g = true /\
  exists st, (run_history false g f1_keys 20 init_state [(1, (3%N, 0%N), 2%positive); (3, (9%N, 0%N), 2%positive)] = Some st) /\
  (option_map fst (query_memo g f1_keys 20 st (3, (6%N, 10%N), 2%positive)) = Some (Some [AUndef; ADef 2%positive])).
Proof. split; [reflexivity|]. eexists. split; vm_compute; reflexivity. Qed.

(* The policy of the tree before commit 346db57 (cached_property) is refuted: after lint has asked
   for `c` (inside the loop header flow), the read of `w` no longer sees the loop-carried `w = 1`. *)
Theorem C04_as_is_refuted : exists g km fuel h q st,
  run_history true g km fuel init_state h = Some st /\
  option_map fst (query_memo_gen true g km fuel st q) <> query_pure g km fuel q.
Proof.
  exists f1_graph, f1_keys, 20, [f1_read_c], f1_read_w.
  eexists. split; [vm_compute; reflexivity|]. vm_compute. discriminate.
Qed.
Print Assumptions C04_as_is_refuted.

(* the policy now in /repo answers the same history like the memo-free evaluation *)
Example C04_example :
  exists st, run_history false f1_graph f1_keys 20 init_state [f1_read_c] = Some st /\
  option_map fst (query_memo f1_graph f1_keys 20 st f1_read_w) = query_pure f1_graph f1_keys 20 f1_read_w /\
  query_pure f1_graph f1_keys 20 f1_read_w = Some (Some [AUndef; ADef 2%positive; ADef 3%positive]) /\
  option_map fst (query_memo_gen true f1_graph f1_keys 20 st f1_read_w) <> None.
Proof. eexists. split; [vm_compute; reflexivity|]. vm_compute. repeat split; discriminate. Qed.
