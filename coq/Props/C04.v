(* C04 - answers do not depend on which positions were queried before.
   Statements only; proofs in Proofs/MemoProofs.v.  Models: Model/Memo.v (loop_memo of scope.py in
   state-passing style), Model/FlowGraph.v (memo-free meaning). *)
From Coq Require Import List Bool Arith NArith PArith FMapPositive.
Import ListNotations.
From Supp Require Import Model.Layout Model.FlowGraph Model.Memo Proofs.MemoProofs Proofs.PathSem Proofs.MemoFull.

(* F1 witness  `for x in xs: / if c: w = 2 / else: pass / print(w) / w = 1`
   flows: 0 top, 1 for (x; parents top and the loop back edge to 4), 2 if (w = 2), 3 else,
   4 join (w = 1, added after the read), 5 for-else, 6 join.  names: x = 1, w = 2, c = 3. *)
Definition f1_graph : graph :=
  mkGraph [ mkFlow [] [] [] None;
            mkFlow [mkBind 1 1] [Direct 0; Loop 0] [] None;
            mkFlow [mkBind 2 2] [Direct 1] [] None;
            mkFlow [] [Direct 1] [] None;
            mkFlow [mkBind 2 3] [Direct 2; Direct 3] [] None;
            mkFlow [] [Direct 0; Direct 4] [] None;
            mkFlow [] [Direct 5] [] None ]%positive [4].
Definition f1_keys : keymap :=
  kmap_of_list [(1%positive, ((2%N, 4%N), (1%N, 4%N))); (2%positive, ((3%N, 13%N), (3%N, 8%N)));
                (3%positive, ((7%N, 9%N), (7%N, 4%N)))].
Definition f1_read_c : query := (1, (2%N, 7%N), 3%positive).
Definition f1_read_w : query := (4, (6%N, 10%N), 2%positive).

(* THE THEOREM.  For every flow graph g with scope levels lvs that passes the decidable
   well-formedness check graph_wfb (evaluated in Coq on every graph the harness dumps from supp:
   parents and loop targets stay in their scope level, a Direct parent was created before its
   child, the chain of a scope-entry flow points to outer levels, a flow with parents has a Direct
   parent, indices in range) - any size, any loop nesting -, every list h of earlier queries
   and every query q: if the memoised evaluation (Model/Memo.v = loop_memo of scope.py, /repo HEAD)
   answers a after the history h, then the memo-free evaluation (Model/FlowGraph.v) is defined for
   every fuel m >= fuel_bound g lvs = (max level + 1)(loops + 1)(flows + 1) + (loops + 1)(flows + 1)
   + flows + 1 and its answer is the same: both KeyError, or rows with the same set of
   alternatives.  No hypothesis on the memo state, the history or the fuel of the memoised run.

   The UNCONDITIONAL statement (no graph_wfb) is not proved and is not expected to hold for
   arbitrary chains (a scope-entry rule pointing into an inner loop is not monotone); graph_wfb is
   checked, not assumed: harness/props/c04.py reports any dumped graph that fails it.

   Proof (Proofs/PathSem.v, Proofs/MemoFull.v): walks in the graph per name; the memo-free value
   under a resolving set R is exactly the set of alternatives reached by walks avoiding R (cycle
   cutting; the _closes rule is what makes the evaluation complete for simple walks); every value
   the memoised evaluation returns or stores with dependency set D lies between the simple walks
   avoiding D and all walks; dependencies are loops being resolved, so a top-level answer has D = [].
   NOTE: the invariant planned in DESIGN.md 5/C04 (stored value = memo-free value under the layer's
   resolving set) is false: a stored value may be strictly larger (see notes/C04.md). *)
Theorem C04_memo_transparent : forall g lvs km fuel h q st a st' m,
  graph_wfb g lvs = true ->
  run_history false g km fuel init_state h = Some st ->
  query_memo g km fuel st q = Some (a, st') ->
  fuel_bound g lvs <= m ->
  exists a',
    query_pure g km m q = Some a' /\
    match a, a' with
    | Some r, Some r' => forall x, In x r <-> In x r'
    | None, None => True
    | _, _ => False
    end.
Proof.
  intros g lvs km fuel h q st a st' m Hwf Hh Hq Hm.
  destruct (memo_transparent_bound g lvs km fuel h q st a st' m Hwf Hh Hq Hm) as [a' [Ha' Hr]].
  exists a'. split; [exact Ha'|]. destruct a, a'; simpl in Hr; auto.
Qed.
Print Assumptions C04_memo_transparent.

(* fuel sufficiency: on a well-formed graph the memo-free evaluation is defined for every flow,
   every resolving set and every fuel from the stated bound on ("out of fuel" never hides an answer) *)
Theorem C04_pure_total : forall g lvs km R f fl m,
  graph_wfb g lvs = true -> nth_error (flows g) f = Some fl -> fuel_bound g lvs <= m ->
  exists e, names_pure (norm km) g m R f = Some e.
Proof.
  intros g lvs km R f fl m Hwf Hf Hm.
  exact (names_pure_defined_bound (norm km) g lvs R f fl m (graph_wfb_sound g lvs Hwf) Hf Hm).
Qed.
Print Assumptions C04_pure_total.

(* Corollary-style special case kept from the first round (proved independently, with equality of
   rows as lists): graphs without loops. *)
Theorem C04_memo_transparent_partial : forall g km fuel h q st a st',
  no_loopsb g = true ->
  run_history false g km fuel init_state h = Some st ->
  query_memo g km fuel st q = Some (a, st') ->
  exists n, forall m, n <= m -> query_pure g km m q = Some a.
Proof. exact memo_transparent_noloops. Qed.
Print Assumptions C04_memo_transparent_partial.

(* An answer of the memo-free evaluation never changes when more fuel is given: "out of fuel" is
   the only effect of the fuel parameter. *)
Theorem C04_fuel_monotone : forall g km n m q a,
  n <= m -> query_pure g km n q = Some a -> query_pure g km m q = Some a.
Proof. exact query_pure_mono. Qed.
Print Assumptions C04_fuel_monotone.

(* Non-vacuity of the partial theorem: `if c: w = 2 / else: pass / print(w)` (no loop), asked after
   two other queries. *)
Example C04_partial_example :
  let g := mkGraph [ mkFlow [] [] [] None;
                     mkFlow [mkBind 2 2] [Direct 0] [] None;
                     mkFlow [] [Direct 0] [] None;
                     mkFlow [mkBind 2 3] [Direct 1; Direct 2] [] None ]%positive [] in
  no_loopsb g = true /\
  exists st, (run_history false g f1_keys 20 init_state [(1, (3%N, 0%N), 2%positive); (3, (9%N, 0%N), 2%positive)] = Some st) /\
  (option_map fst (query_memo g f1_keys 20 st (3, (6%N, 10%N), 2%positive)) = Some (Some [AUndef; ADef 2%positive])).
Proof. split; [reflexivity|]. eexists. split; vm_compute; reflexivity. Qed.

(* Non-vacuity of C04_memo_transparent: the F1 witness graph (one loop) is well-formed, and the
   theorem applies to the history "read of c, then read of w". *)
Example C04_full_example :
  graph_wfb f1_graph [1; 1; 1; 1; 1; 1; 1] = true /\
  exists st a st', run_history false f1_graph f1_keys 20 init_state [f1_read_c] = Some st /\
                   query_memo f1_graph f1_keys 20 st f1_read_w = Some (a, st') /\
                   a = Some [AUndef; ADef 2%positive; ADef 3%positive].
Proof. split; [reflexivity|]. do 3 eexists. split; [vm_compute; reflexivity|]. split; vm_compute; reflexivity. Qed.

(* The policy of the tree before commit 346db57 (cached_property) is refuted: after lint has asked
   for `c` (inside the loop header flow), the read of `w` no longer sees the loop-carried `w = 1`. *)
Theorem C04_as_is_refuted : exists g km fuel h q st,
  run_history true g km fuel init_state h = Some st /\
  option_map fst (query_memo_gen true g km fuel st q) <> query_pure g km fuel q.
Proof.
  exists f1_graph, f1_keys, 20, [f1_read_c], f1_read_w.
  eexists. split; [vm_compute; reflexivity|]. vm_compute. discriminate.
Qed.
Print Assumptions C04_as_is_refuted.

(* the policy now in /repo answers the same history like the memo-free evaluation *)
Example C04_example :
  exists st, run_history false f1_graph f1_keys 20 init_state [f1_read_c] = Some st /\
  option_map fst (query_memo f1_graph f1_keys 20 st f1_read_w) = query_pure f1_graph f1_keys 20 f1_read_w /\
  query_pure f1_graph f1_keys 20 f1_read_w = Some (Some [AUndef; ADef 2%positive; ADef 3%positive]) /\
  option_map fst (query_memo_gen true f1_graph f1_keys 20 st f1_read_w) <> None.
Proof. eexists. split; [vm_compute; reflexivity|]. vm_compute. repeat split; discriminate. Qed.
