(* C17 - deterministic output; alternatives listed in source order.
   Statements only; proofs in Proofs/FlowGraphProofs.v. Model: Model/FlowGraph.v (scope.py
   Flow._get_parent_names / names_at, name.py MultiName after the fix of F4).
   A Gallina function is deterministic by construction; what is stated is the ordering contract
   that makes the output a function of the *set* of alternatives.  That the running code produces
   this order in every process is the multi-process correspondence of harness/props/c17.py. *)
From Coq Require Import List Bool Arith NArith PArith FMapPositive Sorted.
Import ListNotations.
From Supp Require Import Model.Layout Model.FlowGraph Proofs.FlowGraphProofs.

(* Every row the lookup returns - for every graph, position assignment, fuel and query - is
   duplicate-free and sorted by (undefined marker first, declared_at, location). *)
Theorem C17_rows_sorted : forall g km fuel q r,
  query_pure g km fuel q = Some (Some r) ->
  NoDup r /\ StronglySorted (fun a b => alt_ltb km b a = false) r.
Proof. exact query_pure_normal. Qed.
Print Assumptions C17_rows_sorted.

(* The row is a function of the set of alternatives: two duplicate-free sorted rows with the same
   elements are the same list, provided no two alternatives share a position key. *)
Theorem C17_function_of_set : forall km r1 r2,
  normal km r1 -> normal km r2 -> (forall x, In x r1 <-> In x r2) ->
  (forall x y, In x r1 -> In y r1 -> key_of km x = key_of km y -> x = y) ->
  r1 = r2.
Proof. exact normal_canonical. Qed.
Print Assumptions C17_function_of_set.

(* whatever order the parents contributed the alternatives in, normalisation yields the same row *)
Theorem C17_norm_order_irrelevant : forall km l1 l2,
  (forall x, In x l1 <-> In x l2) ->
  (forall x y, In x l1 -> In y l1 -> key_of km x = key_of km y -> x = y) ->
  norm km l1 = norm km l2.
Proof.
  intros km l1 l2 Hset Hinj. apply (normal_canonical km); try apply norm_normal.
  - intros x. rewrite !In_norm. apply Hset.
  - intros x y Hx Hy. apply Hinj; apply (In_norm km); assumption.
Qed.
Print Assumptions C17_norm_order_irrelevant.

(* first_name (what a module exports for a multiply-bound name) is the least binding of the row *)
Theorem C17_first_name_min : forall g km fuel q r b,
  query_pure g km fuel q = Some (Some r) -> first_name r = Some b ->
  In (ADef b) r /\ forall b', In (ADef b') r -> alt_ltb km (ADef b') (ADef b) = false.
Proof.
  intros g km fuel q r b Hq Hf. apply (first_name_min km r b); [|exact Hf].
  eapply query_pure_normal; eauto.
Qed.
Print Assumptions C17_first_name_min.

(* the undefined marker, when present, is listed first *)
Theorem C17_undef_first : forall g km fuel q r,
  query_pure g km fuel q = Some (Some r) -> In AUndef r -> exists t, r = AUndef :: t.
Proof.
  intros g km fuel q r Hq Hin. apply (normal_undef_head km); [|exact Hin].
  eapply query_pure_normal; eauto.
Qed.
Print Assumptions C17_undef_first.

(* Non-vacuity: the four-way definition of F4 (`if a: x=1 / elif b: x=2 / elif c: x=3 / else: x=4`, then `x`).
   flows: 0 top, 1 if, 2 else, 3 if, 4 else, 5 if, 6 else, 7 join(5,6), 8 join(3,7), 9 join(1,8);
   the parents of the joins are listed in an order that is NOT the source order. *)
Example C17_example :
  let x := 1%positive in
  let g := mkGraph [ mkFlow [] [] [] None;
                     mkFlow [mkBind x 1%positive] [Direct 0] [] None; mkFlow [] [Direct 0] [] None;
                     mkFlow [mkBind x 2%positive] [Direct 2] [] None; mkFlow [] [Direct 2] [] None;
                     mkFlow [mkBind x 3%positive] [Direct 4] [] None; mkFlow [mkBind x 4%positive] [Direct 4] [] None;
                     mkFlow [] [Direct 6; Direct 5] [] None;
                     mkFlow [] [Direct 7; Direct 3] [] None;
                     mkFlow [] [Direct 8; Direct 1] [] None ] [] in
  let km := kmap_of_list [(1%positive, ((2%N, 9%N), (2%N, 4%N))); (2%positive, ((4%N, 9%N), (4%N, 4%N))); (3%positive, ((6%N, 9%N), (6%N, 4%N))); (4%positive, ((8%N, 9%N), (8%N, 4%N)))] in
  query_pure g km 20 (9, (9, 0)%N, x) = Some (Some [ADef 1%positive; ADef 2%positive; ADef 3%positive; ADef 4%positive]) /\
  first_name [AUndef; ADef 2%positive; ADef 3%positive] = Some 2%positive.
Proof. vm_compute. split; reflexivity. Qed.
