(* placeholder during development *)
From Coq Require Import List NArith ZArith.
Import ListNotations.
From Supp Require Import Model.Msgpack Model.MsgpackSpec.
Example C14_placeholder : decode [192%N] = Ok (Nil, []).
Proof. reflexivity. Qed.
