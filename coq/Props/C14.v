(* C14 - MessagePack codec: lossless, spec-conformant, rejects truncation.
   Statements only; proofs are in Proofs/Msgpack*.v.
   Models: Model/Msgpack.v   (encode = umsgpack.dumps, decode = umsgpack.loads + unread rest, wf = data model)
           Model/MsgpackSpec.v (Enc = the MessagePack specification, every legal format; spec_decode).
   No bound on nesting depth, element counts or payload lengths in any statement. *)
From Coq Require Import List Bool Arith NArith ZArith Lia.
Import ListNotations.
From Supp Require Import Model.Msgpack Model.MsgpackSpec Proofs.MsgpackBytes Proofs.MsgpackProofs Proofs.MsgpackTrunc
  Proofs.MsgpackSpecProofs Proofs.MsgpackSpecSound.
Local Open Scope N_scope.

(* Lossless: decoding the encoding of a well-formed value gives the value back and leaves exactly
   the bytes that followed it. *)
Theorem C14_roundtrip : forall v b, wf v = true -> encode v = Some b ->
  forall rest, decode (b ++ rest) = Ok (v, rest).
Proof. exact roundtrip. Qed.
Print Assumptions C14_roundtrip.

(* Integers outside [-2^63, 2^64) are refused, not wrapped ... *)
Theorem C14_int_refused : forall z,
  ~ (-9223372036854775808 <= z < 18446744073709551616)%Z -> encode (Int z) = None.
Proof. exact int_refused. Qed.
Print Assumptions C14_int_refused.

(* ... and a container holding a refused member (at any depth, by iteration) is refused. *)
Theorem C14_refusal_propagates : forall x, encode x = None ->
  (forall l, In x l -> encode (Arr l) = None) /\
  (forall kvs y, In (x, y) kvs \/ In (y, x) kvs -> encode (Map kvs) = None).
Proof.
  intros x Hx. split.
  - intros l Hin. eapply encode_arr_none; eassumption.
  - intros kvs y [Hin|Hin]; eapply encode_map_none; try eassumption; auto.
Qed.
Print Assumptions C14_refusal_propagates.

(* Every value of the data model is encoded. *)
Theorem C14_encode_total : forall v, wf v = true -> encode v <> None.
Proof. exact encode_total. Qed.
Print Assumptions C14_encode_total.

(* Every proper prefix of a legal serialisation (any format) of a well-formed value is refused as
   insufficient data. *)
Theorem C14_truncation : forall v b p q, wf v = true -> Enc v b -> b = p ++ q -> q <> [] ->
  decode p = Err Insufficient.
Proof.
  intros v b p q Hwf H Hb Hq. apply (truncation v b p Hwf H). exists q. split; assumption.
Qed.
Print Assumptions C14_truncation.

(* What the encoder writes is valid MessagePack. *)
Theorem C14_encode_conforms : forall v b, wf v = true -> encode v = Some b -> Enc v b.
Proof. intros v b Hwf H. exact (encode_conforms v Hwf b H). Qed.
Print Assumptions C14_encode_conforms.

(* The decoder accepts every spec-valid serialisation of a well-formed value, including non-minimal
   integer and length formats and float 32. *)
Theorem C14_accepts_every_form : forall v b, wf v = true -> Enc v b ->
  forall rest, decode (b ++ rest) = Ok (v, rest).
Proof. exact accepts_every_form. Qed.
Print Assumptions C14_accepts_every_form.

(* An independent decoder written from the specification reads back what the encoder wrote ... *)
Theorem C14_spec_reads_back : forall v b, wf v = true -> encode v = Some b -> spec_decode b = Some (v, []).
Proof. exact spec_reads_back. Qed.
Print Assumptions C14_spec_reads_back.

(* ... and what it wrote are bytes. *)
Theorem C14_encode_bytes : forall v b, wf v = true -> encode v = Some b -> Forall (fun x => x < 256) b.
Proof. exact encode_bytes. Qed.
Print Assumptions C14_encode_bytes.

(* The independent decoder is exactly the specification: on byte strings it accepts b as v iff Enc v b
   (this is what lets the check validate its Python twin of Enc by running spec_decode). *)
Theorem C14_spec_decides_enc : forall v b, Forall (fun x => x < 256) b ->
  (spec_decode b = Some (v, []) <-> Enc v b).
Proof. exact spec_decides_enc. Qed.
Print Assumptions C14_spec_decides_enc.

Theorem C14_spec_sound : forall bs v rest, Forall (fun x => x < 256) bs ->
  spec_decode bs = Some (v, rest) -> exists b, bs = b ++ rest /\ Enc v b.
Proof. exact spec_sound. Qed.
Print Assumptions C14_spec_sound.

(* The explicit fuel of the model's decoder is never exhausted, on any input whatsoever (so an
   error of the model is always one of the codec's own), and a success consumes at least a byte. *)
Theorem C14_decode_fuel : forall bs,
  decode bs <> Err OutOfFuel /\ (forall v r, decode bs = Ok (v, r) -> (length r < length bs)%nat).
Proof. intros bs. split; [apply decode_never_out_of_fuel | apply decode_consumes]. Qed.
Print Assumptions C14_decode_fuel.

(* Non-vacuity: a nested value with a tuple key, a float key, an ext and a 2^64-1 integer is
   well-formed, is encoded, and is read back; a non-minimal form of 5 is legal and accepted;
   cutting it is refused; True and 1 collide as keys. *)
Example C14_example :
  let v := Map [(Int 1, Arr [Str [104; 105]; F64 4607182418800017408; Int (-33)]);
                (Arr [Int 1; Str []], Ext 5 [1; 2; 3; 4]);
                (F64 4612811918334230528, Int 18446744073709551615)] in
  wf v = true /\
  encode v = Some [131; 1; 147; 162; 104; 105; 203; 63; 240; 0; 0; 0; 0; 0; 0; 208; 223;
                   146; 1; 160; 214; 5; 1; 2; 3; 4;
                   203; 64; 4; 0; 0; 0; 0; 0; 0; 207; 255; 255; 255; 255; 255; 255; 255; 255] /\
  Enc (Int 5) [205; 0; 5] /\ decode [205; 0; 5; 7] = Ok (Int 5, [7]) /\
  decode [205; 0] = Err Insufficient /\
  wf (Map [(Bool true, Nil); (Int 1, Nil)]) = false /\
  decode [130; 195; 192; 1; 192] = Err Duplicate.
Proof.
  repeat split; try (vm_compute; reflexivity).
  apply E_int. apply (IE_u16 5). lia.
Qed.
