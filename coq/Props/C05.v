(* C05 - names resolve in the scope CPython's compiler assigns them to.
   Statements only; proofs in Proofs/ScopesProofs.v. Models: Model/Scopes.v
   (py_owner = symtable.c analyze_block/analyze_name; supp_owners = scope.py entry rule,
   ClassScope.names, add_name / add_global / resolve_nonlocals, BuiltinScope).

   A chain [fs] is the list of blocks from the module down to the scope in which the name is read
   (any length: any nesting depth); an owner OScope d is the block at depth d of that chain. *)
From Coq Require Import List Bool Arith NArith.
Import ListNotations.
From Supp Require Import Model.Scopes Proofs.ScopesProofs.

(* Full statement, for supp with the repairs F14 (nonlocal) and F26 (global under an enclosing local):
   for every chain of blocks of any depth whose outermost block is the module, every name x whose
   nonlocal declarations CPython accepts, read in the innermost block (a class body only for names
   the class does not bind), and every builtin set / set of global-routed names:
   every alternative supp can report for the read is owned by the block symtable.c assigns x to
   (module-level and builtin owners of supp where the compiler says "global"). *)
Theorem C05_owner_agrees : forall e fs x o,
  shape_ok fs = true -> nonlocal_ok fs x = true -> in_domain fs x = true ->
  In o (supp_owners cfg_fixed e fs x) -> py_owner fs x = Some (coarse o).
Proof. exact supp_owner_agrees. Qed.
Print Assumptions C05_owner_agrees.

(* The same for every scope tree and every scope (path) in it. *)
Theorem C05_owner_agrees_tree : forall builtins t p fs x o,
  chain t p = Some fs ->
  shape_ok fs = true -> nonlocal_ok fs x = true -> in_domain fs x = true ->
  In o (supp_owners_at cfg_fixed builtins t p x) -> py_owner_at t p x = Some (coarse o).
Proof. exact supp_owner_at_agrees. Qed.
Print Assumptions C05_owner_agrees_tree.

(* Class-body bindings are never visible as bare names in nested scopes: a binding supp takes from a
   strictly enclosing block is always owned by a function block (holds for the pinned rule too). *)
Theorem C05_class_bindings_invisible : forall c e fs x d,
  shape_ok fs = true -> In (OScope d) (supp_owners c e fs x) -> d < length fs - 1 ->
  exists f, nth_error fs d = Some f /\ function_like (fkind f) = true.
Proof. exact class_bindings_invisible. Qed.
Print Assumptions C05_class_bindings_invisible.

(* A name local to a function is never satisfied by an outer or builtin binding: the only owner is
   the function itself (holds for the pinned rule too). *)
Theorem C05_local_never_outer : forall c e fs a up x,
  rev fs = a :: up -> up <> [] -> function_like (fkind a) = true -> is_local c a x = true ->
  supp_owners c e fs x = [OScope (length fs - 1)].
Proof. exact local_never_outer. Qed.
Print Assumptions C05_local_never_outer.

(* Existence (the converse direction, used by C01's inter-scope glue), repaired rule: wherever
   CPython's lookup can succeed, supp offers an owner in that same scope.
   - py_owner = OScope d (a closure variable owned by the enclosing function at depth d, or a local of
     the reading scope itself when d is its own depth): OScope d is among supp's candidate owners.
     No premise "block d binds x" is needed: it is a consequence (C05_owner_binds).
     For d = the reading scope's own depth this says that the scope's own names are among the
     candidates; whether the binding precedes the read is flow-sensitive and is C01's intra-scope theorem.
   - py_owner = OGlobal: if the module-level lookup of supp can succeed (the module binds x as its own
     name, or some block binds it under `global`, or it is a builtin), supp offers a module-level or
     builtin owner.
   Holds for class-body reads too; needs neither nonlocal_ok (py_owner = None on illegal nonlocals) nor
   in_domain. *)
Theorem C05_owner_exists : forall e fs x,
  shape_ok fs = true ->
  match py_owner fs x with
  | Some (OScope d) => In (OScope d) (supp_owners cfg_fixed e fs x)
  | Some OGlobal => module_offers e fs x = true ->
                    exists o, In o (supp_owners cfg_fixed e fs x) /\ coarse o = OGlobal
  | _ => True
  end.
Proof. exact supp_owner_exists. Qed.
Print Assumptions C05_owner_exists.

(* The block CPython resolves a local / closure variable to is on the chain and binds the name. *)
Theorem C05_owner_binds : forall fs x d,
  py_owner fs x = Some (OScope d) ->
  exists f, nth_error fs d = Some f /\ mem x (fbound f) = true.
Proof. exact py_owner_binds. Qed.
Print Assumptions C05_owner_binds.

(* Non-vacuity of C05_owner_exists on the chain of C05_example (x closure variable of f through a class
   and a nonlocal declaration; y module-level; z routed by `global`; len builtin; w=9 bound nowhere):
   both branches of the match are reached with their premises true, and for w the premise is false. *)
Example C05_owner_exists_example :
  let fs := [Frame KModule [1; 2; 5]%N [] []; Frame KFunction [1; 3; 6]%N [] [];
             Frame KClass [1; 2; 7]%N [] []; Frame KFunction [8; 1; 3]%N [3]%N [1]%N;
             Frame KLambda [] [] []] in
  let e := Env (fun n => N.eqb n 4) (fun n => N.eqb n 3) in
  shape_ok fs = true /\
  map (py_owner fs) [1; 2; 3; 4; 9]%N =
    [Some (OScope 1); Some OGlobal; Some OGlobal; Some OGlobal; Some OGlobal] /\
  map (module_offers e fs) [2; 3; 4; 9]%N = [true; true; true; false] /\
  In (OScope 1) (supp_owners cfg_fixed e fs 1%N) /\
  map (supp_owners cfg_fixed e fs) [2; 3; 4; 9]%N = [[OModule]; [OModule]; [OBuiltin]; []].
Proof. vm_compute. repeat split; try reflexivity. left. reflexivity. Qed.

(* Without the repairs (any configuration, in particular cfg_pinned = the tree before F14/F26) the
   statement holds on the sub-domain: no block of the chain declares x nonlocal, and no block declares
   x global below a function that binds x. *)
Theorem C05_partial : forall c e fs x o,
  shape_ok fs = true -> pinned_domain fs x = true -> in_domain fs x = true ->
  In o (supp_owners c e fs x) -> py_owner fs x = Some (coarse o).
Proof. exact supp_owner_agrees_partial. Qed.
Print Assumptions C05_partial.

(* The full statement is false for the pinned rule: F14 (nonlocal ignored) and F26 (global under an
   enclosing local). Witnesses: corpus/C05/f14_nonlocal.json, corpus/C05/f26_global_under_local.json *)
Theorem C05_full_refuted_pinned :
  (exists fs x o, shape_ok fs = true /\ nonlocal_ok fs x = true /\ in_domain fs x = true /\
     In o (supp_owners cfg_pinned no_env fs x) /\ py_owner fs x <> Some (coarse o) /\
     forallb (fun f => negb (mem x (fnonlocal f))) fs = false) /\
  (exists fs x o, shape_ok fs = true /\ nonlocal_ok fs x = true /\ in_domain fs x = true /\
     In o (supp_owners cfg_pinned no_env fs x) /\ py_owner fs x <> Some (coarse o) /\
     forallb (fun f => negb (mem x (fnonlocal f))) fs = true).
Proof.
  split.
  - exists w_f14, 1%N, (OScope 2). vm_compute. repeat split; try reflexivity; try (left; reflexivity); discriminate.
  - exists w_f26, 1%N, (OScope 1). vm_compute. repeat split; try reflexivity; try (left; reflexivity); discriminate.
Qed.
Print Assumptions C05_full_refuted_pinned.

(* Open finding K4-C05 (corpus/C05/known_K4-C05.json): the theorems above give both parties one
   bound-name set per block. For a name bound only by a match capture pattern supp's set lacks the name
   (second chain) and the read is satisfied by the module's binding, while CPython (first chain) makes it
   a local of the function; with the same set (third equation) the rule is right. *)
Theorem C05_full_refuted_binding_forms :
  py_owner w_k4_py 1%N = Some (OScope 1) /\ supp_owners cfg_fixed no_env w_k4_supp 1%N = [OModule] /\
  supp_owners cfg_fixed no_env w_k4_py 1%N = [OScope 1].
Proof. exact binding_forms_refuted. Qed.
Print Assumptions C05_full_refuted_binding_forms.

(* Non-vacuity: a five-deep chain meeting the hypotheses of C05_owner_agrees, with shadowing, a class
   between functions, a nonlocal and a global declaration (names: x=1 y=2 z=3 len=4):
     x = 0; y = 0
     def f():                x = 1; z = 1
       class C:              x = 2; y = 2
         def m(self):        nonlocal x; global z; x = 3; z = 3
           lambda: (x, y, z, len)
   x -> f (depth 1), y -> global (the class body is skipped), z -> global (declared in m), len -> builtin *)
Example C05_example :
  let fs := [Frame KModule [1; 2; 5]%N [] []; Frame KFunction [1; 3; 6]%N [] [];
             Frame KClass [1; 2; 7]%N [] []; Frame KFunction [8; 1; 3]%N [3]%N [1]%N;
             Frame KLambda [] [] []] in
  let e := Env (fun n => N.eqb n 4) (fun n => N.eqb n 3) in
  shape_ok fs = true /\
  forallb (fun x => nonlocal_ok fs x && in_domain fs x) [1; 2; 3; 4]%N = true /\
  map (py_owner fs) [1; 2; 3; 4]%N = [Some (OScope 1); Some OGlobal; Some OGlobal; Some OGlobal] /\
  map (supp_owners cfg_fixed e fs) [1; 2; 3; 4]%N = [[OScope 1; OScope 1]; [OModule]; [OModule]; [OBuiltin]] /\
  map (supp_owners cfg_pinned e fs) [1; 2; 3; 4]%N = [[OScope 3]; [OModule]; [OScope 1]; [OBuiltin]].
Proof. vm_compute. repeat split; reflexivity. Qed.
