(* C09 - a long-lived project answers exactly like a fresh one (cache transparency).
   Statements only; proofs are in Proofs/CacheProofs.v. Model: Model/Cache.v
   (project.py check_changes/get_module, module.py SourceModule, name.py ImportedName.resolve,
    scope.py resolve_star_imports, server.py).

   Full statement: for every history of writes (create / rewrite, each with a new mtime), touches and
   requests, every request made inside check_changes returns what a brand-new project returns on the
   disk as it is at that moment.  [ref_answer f d rq] is that reference: a pure, cache-free,
   fuel-bounded function of the disk [d]; [fresh f d rq] is the modelled implementation started on
   an empty cache.  Answers are [res]: Ok a | OOF (fuel exhausted) | Err; the theorems speak about
   Ok answers, so fuel exhaustion is never mistaken for an answer. *)
From Coq Require Import List Bool Arith NArith.
Import ListNotations.
From Supp Require Import Model.Cache Proofs.CacheProofs.

(* Repaired policy (fix F23): every answer given anywhere in any history is the reference answer on
   the disk of that moment - for all histories, all fuels, all requests (no bound on the length). *)
Theorem C09_cache_transparent : forall f ops d rq a,
  In (d, rq, Ok a) (snd (run Repaired f init_world ops)) ->
  exists f', ref_answer f' d rq = Some a.
Proof. exact cache_transparent. Qed.
Print Assumptions C09_cache_transparent.

(* Full strength, with the fuel made explicit: on whatever fuel the reference answer is defined, every
   request of every history is answered (no OOF, no Err) by exactly that answer, and so is a brand-new
   project: request_answer = fresh (disk_after history). *)
Theorem C09_full : forall f ops d rq r a,
  In (d, rq, r) (snd (run Repaired f init_world ops)) ->
  ref_answer f d rq = Some a -> r = Ok a /\ fresh f d rq = Ok a.
Proof. exact cache_transparent_full. Qed.
Print Assumptions C09_full.

(* The stated fuel suffices: on an acyclic project (every import edge between modules on disk goes to a
   module of smaller rank, ranks below R) the reference answer is defined with fuel R + 1 ... *)
Theorem C09_fuel_suffices : forall d rk R, ranked d rk -> rank_bound d rk R ->
  forall rq, exists a, ref_answer (R + 1) d rq = Some a.
Proof. exact ref_answer_total. Qed.
Print Assumptions C09_fuel_suffices.

(* ... hence, unconditionally: whenever the disk is acyclic at the moment of a request and the fuel is
   at least R + 1, the long-lived project answers, a brand-new project answers, and both give the
   reference answer. *)
Theorem C09_acyclic : forall f ops d rq r rk R,
  In (d, rq, r) (snd (run Repaired f init_world ops)) ->
  ranked d rk -> rank_bound d rk R -> R + 1 <= f ->
  exists a, ref_answer f d rq = Some a /\ r = Ok a /\ fresh f d rq = Ok a.
Proof. exact cache_transparent_acyclic. Qed.
Print Assumptions C09_acyclic.

(* The reference answer is unique: it does not depend on the fuel once there is enough of it. *)
Theorem C09_ref_deterministic : forall d rq f1 f2 a1 a2,
  ref_answer f1 d rq = Some a1 -> ref_answer f2 d rq = Some a2 -> a1 = a2.
Proof. exact ref_answer_deterministic. Qed.
Print Assumptions C09_ref_deterministic.

(* Long-lived = brand-new: whenever the long-lived project and a new project (empty caches) both
   answer the same request on the same disk, the answers are equal. *)
Theorem C09_long_equals_fresh : forall f ops d rq a f2 a2,
  In (d, rq, Ok a) (snd (run Repaired f init_world ops)) ->
  fresh f2 d rq = Ok a2 -> a = a2.
Proof. exact long_equals_fresh. Qed.
Print Assumptions C09_long_equals_fresh.

(* The cache-coherence invariant [Inv d st] = well-formed caches whose every reachable object was
   built from the current disk.  check_changes establishes it from the between-requests condition
   [weak] (cached modules are not newer than the disk and an equal mtime means equal text) ... *)
Theorem C09_invariant_established : forall d st, wf st -> weak d st -> Inv d (check_changes Repaired d st).
Proof. exact invariant_established. Qed.
Print Assumptions C09_invariant_established.

(* ... serving a request preserves it ... *)
Theorem C09_invariant_preserved : forall d f st rq st' r,
  Inv d st -> serve f d st rq = (st', r) -> Inv d st'.
Proof. exact invariant_preserved. Qed.
Print Assumptions C09_invariant_preserved.

(* ... and it means: everything the caches know is true of the disk. *)
Theorem C09_invariant_meaning : forall d st, Inv d st -> kle (know_st st) (know_disk d).
Proof. exact invariant_meaning. Qed.
Print Assumptions C09_invariant_meaning.

(* Pinned policy (only the requested module name is re-stat'ed): refuted by a 3-module history
   a: from b import * / b: from c import C as B / c rewritten between two requests (defect F23) ... *)
Theorem C09_as_is_refuted : exists f ops d rq a a',
  In (d, rq, Ok a) (snd (run AsIs f init_world ops)) /\ fresh f d rq = Ok a' /\ a <> a'.
Proof. exact as_is_refuted. Qed.
Print Assumptions C09_as_is_refuted.

(* ... and by a module that did not exist at the first lookup and is created later. *)
Theorem C09_as_is_refuted_created_module : exists f ops d rq a a',
  In (d, rq, Ok a) (snd (run AsIs f init_world ops)) /\ fresh f d rq = Ok a' /\ a <> a'.
Proof. exact as_is_refuted_created. Qed.
Print Assumptions C09_as_is_refuted_created_module.

(* Non-vacuity: on the two witness histories the repaired policy does give Ok answers, they are the
   reference answers, and the second request sees the edit. *)
Example C09_example :
  answers Repaired 10 f23_history = [Ok (ANames [20%N]); Ok (ANames [21%N])] /\
  ref_answers 10 f23_history = [Ok (ANames [20%N]); Ok (ANames [21%N])] /\
  answers Repaired 10 f23_neg_history = [Ok (ANames []); Ok (ANames [24%N])] /\
  stale_obs Repaired 10 f23_history = false /\ stale_obs AsIs 10 f23_history = true.
Proof. vm_compute. repeat split; reflexivity. Qed.

(* Non-vacuity of the acyclicity hypotheses: the final disk of the witness history is ranked
   (a = 2 > b = 1 > c = 0) with bound 3, so C09_acyclic applies to it with any fuel >= 4. *)
Example C09_example_ranked :
  let d := w_disk (fst (run Repaired 10 init_world f23_history)) in
  ranked d f23_rank /\ rank_bound d f23_rank 3.
Proof. split; [apply rankedb_sound | apply rank_boundb_sound]; vm_compute; reflexivity. Qed.

(* Non-vacuity of the invariant: the state reached after the first request of the witness is a
   non-empty cache (3 modules) satisfying the hypotheses of C09_invariant_established. *)
Example C09_example_state :
  let w := fst (run Repaired 10 init_world (firstn 4 f23_history)) in
  length (mcache (w_state w)) = 3 /\ length (scopes (w_state w)) = 3 /\ length (refs (w_state w)) = 2.
Proof. vm_compute. repeat split; reflexivity. Qed.
