(* C01 - names bound at run time are visible: no false "undefined", offered in completion.
   Statements only. Models: Model/SemX.v (one scope body with every abrupt exit), Model/Reach.v
   (supp's analysis). Proofs: Proofs/SemXProofs.v, Proofs/ReachCorollaries.v. *)
From Coq Require Import List Bool Arith NArith.
Import ListNotations.
From Supp Require Import Model.PyCore Model.Reach Model.Sem Model.SemX
  Proofs.ReachProofs Proofs.ReachCorollaries Proofs.SemXProofs.
From Supp Require Import Model.ReachX Proofs.ReachXBridge.

(* Every run of every command (no restriction: return, break, continue, exceptions raised
   anywhere and caught by any enclosing try, finally clauses), from any state whose bound names
   are defined in the analysis state, with any fuel and any decision list: the final state's bound
   names are defined in the exit flow, and every read that found its name bound is 'visible'. *)
Theorem C01_run_good : forall fuel c p ds s, dabs p s -> good c s (runX fuel c p ds).
Proof. exact runX_good. Qed.
Print Assumptions C01_run_good.

(* From the scope entry: no E02 for a read that succeeds, and completion offers the name. *)
Theorem C01_visible_any_exit : forall fuel c ds p' tr o ds' r d,
  runX fuel c renv0 ds = DoneX p' tr o ds' -> In (r, Some d) tr ->
  visible c aenv0 r = true /\ e02 c aenv0 r = false.
Proof. exact visible_any_exit. Qed.
Print Assumptions C01_visible_any_exit.

(* Nested scopes read the FINAL environment of the enclosing scope (FuncScope/ClassScope entry
   = pscope.names): it defines every name the enclosing scope binds anywhere, so a closure or
   global read that succeeds at run time - whenever the call happens - finds the name. *)
Theorem C01_exported_defines_all_bound : forall c s x,
  In x (binds c) -> exists d, In (Some d) (an c s x).
Proof. exact exported_defines_all_bound. Qed.
Print Assumptions C01_exported_defines_all_bound.

Local Open Scope N_scope.
(* Non-vacuity:  for x in xs: (site 1)
                     if c: y = 1 (site 2); break
                 print(y) (read 10)      - the run that breaks reads y = 1 after the loop *)
Definition ex_brk : cmd :=
  Seq (For (Bind 1 0) (Branch (Seq (Bind 2 1) (Exit KBrk)) Skip) Skip) (Read 10 1).
Example C01_example :
  exists p' ds', runX 20 ex_brk renv0 [1; 0]%nat = DoneX p' [(10, Some 2)] XN ds' /\
  visible ex_brk aenv0 10 = true.
Proof. eexists. eexists. split; vm_compute; reflexivity. Qed.

(* Since /repo fixes F62/F62b `break` and `continue` are flow edges: supp's analysis is [anx]/[seenx]
   of Model/ReachX.v (tied to the code by the (I) correspondence of this check). It only ADDS
   alternatives to the analysis the theorems above speak about ... *)
Theorem C01_exit_edges_add_alternatives : forall c s t r, sub s t -> subl (seen c s r) (seenx c t r).
Proof. exact seen_sub_seenx. Qed.
Print Assumptions C01_exit_edges_add_alternatives.

(* ... hence the visibility theorem holds of it: every run of every command with any abrupt exits,
   every read that finds its name bound - the name is visible (offered) and not reported E02. *)
Theorem C01_visible_any_exit_x : forall fuel c ds p' tr o ds' r d,
  runX fuel c renv0 ds = DoneX p' tr o ds' -> In (r, Some d) tr ->
  visiblex c aenv0 r = true /\ e02x c aenv0 r = false.
Proof. exact visiblex_any_exit. Qed.
Print Assumptions C01_visible_any_exit_x.
