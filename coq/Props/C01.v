(* C01 - names bound at run time are visible: no false "undefined", offered in completion.
   Statements only. Models: Model/SemX.v (one scope body with every abrupt exit), Model/Reach.v
   (supp's analysis). Proofs: Proofs/SemXProofs.v, Proofs/ReachCorollaries.v. *)
From Coq Require Import List Bool Arith NArith.
Import ListNotations.
From Supp Require Import Model.PyCore Model.Reach Model.Sem Model.SemX
  Proofs.ReachProofs Proofs.ReachCorollaries Proofs.SemXProofs.
From Supp Require Import Model.ReachX Proofs.ReachXBridge.
From Supp Require Import Model.Nested Proofs.NestedProofs Model.NestedRun Proofs.NestedRunProofs.
From Supp Require Import Model.NestedCls Proofs.NestedClsProofs.
From Supp Require Import Model.SemXS Model.NestedRunS Proofs.NestedRunSProofs Model.NestedUsed Proofs.NestedUsedProofs.

(* Every run of every command (no restriction: return, break, continue, exceptions raised
   anywhere and caught by any enclosing try, finally clauses), from any state whose bound names
   are defined in the analysis state, with any fuel and any decision list: the final state's bound
   names are defined in the exit flow, and every read that found its name bound is 'visible'. *)
Theorem C01_run_good : forall fuel c p ds s, dabs p s -> good c s (runX fuel c p ds).
Proof. exact runX_good. Qed.
Print Assumptions C01_run_good.

(* From the scope entry: no E02 for a read that succeeds, and completion offers the name. *)
Theorem C01_visible_any_exit : forall fuel c ds p' tr o ds' r d,
  runX fuel c renv0 ds = DoneX p' tr o ds' -> In (r, Some d) tr ->
  visible c aenv0 r = true /\ e02 c aenv0 r = false.
Proof. exact visible_any_exit. Qed.
Print Assumptions C01_visible_any_exit.

(* Nested scopes read the FINAL environment of the enclosing scope (FuncScope/ClassScope entry
   = pscope.names): it defines every name the enclosing scope binds anywhere, so a closure or
   global read that succeeds at run time - whenever the call happens - finds the name. *)
Theorem C01_exported_defines_all_bound : forall c s x,
  In x (binds c) -> exists d, In (Some d) (an c s x).
Proof. exact exported_defines_all_bound. Qed.
Print Assumptions C01_exported_defines_all_bound.

Local Open Scope N_scope.
(* Non-vacuity:  for x in xs: (site 1)
                     if c: y = 1 (site 2); break
                 print(y) (read 10)      - the run that breaks reads y = 1 after the loop *)
Definition ex_brk : cmd :=
  Seq (For (Bind 1 0) (Branch (Seq (Bind 2 1) (Exit KBrk)) Skip) Skip) (Read 10 1).
Example C01_example :
  exists p' ds', runX 20 ex_brk renv0 [1; 0]%nat = DoneX p' [(10, Some 2)] XN ds' /\
  visible ex_brk aenv0 10 = true.
Proof. eexists. eexists. split; vm_compute; reflexivity. Qed.

(* Since /repo fixes F62/F62b `break` and `continue` are flow edges: supp's analysis is [anx]/[seenx]
   of Model/ReachX.v (tied to the code by the (I) correspondence of this check). It only ADDS
   alternatives to the analysis the theorems above speak about ... *)
Theorem C01_exit_edges_add_alternatives : forall c s t r, sub s t -> subl (seen c s r) (seenx c t r).
Proof. exact seen_sub_seenx. Qed.
Print Assumptions C01_exit_edges_add_alternatives.

(* ... hence the visibility theorem holds of it: every run of every command with any abrupt exits,
   every read that finds its name bound - the name is visible (offered) and not reported E02. *)
Theorem C01_visible_any_exit_x : forall fuel c ds p' tr o ds' r d,
  runX fuel c renv0 ds = DoneX p' tr o ds' -> In (r, Some d) tr ->
  visiblex c aenv0 r = true /\ e02x c aenv0 r = false.
Proof. exact visiblex_any_exit. Qed.
Print Assumptions C01_visible_any_exit_x.

(* ---- inter-scope composition (Model/Nested.v) -------------------------------------------------
   A function body [ci] nested in the chain of enclosing function bodies [outers] (outermost first).
   supp analyses it from [entry_a outers ci]: own locals unbound, every other name as the enclosing
   scope ENDS with (tied to the code by part D of the check: supp's alternatives at every read of
   every level of generated chains = [seen_nested]).  The call may happen at any time, so the
   run-time namespace is any [p] that Python's LEGB rule allows ([rt_env]: own locals unbound; a
   free name can be bound only if some enclosing body binds it).  Then every run of the body with
   any abrupt exits: a read that finds its name bound - in its own frame or an enclosing one - is
   visible to supp there and not reported E02. *)
Theorem C01_nested_visible : forall outers ci fuel ds p p' tr o ds' r d,
  rt_env outers ci p ->
  runX fuel ci p ds = DoneX p' tr o ds' -> In (r, Some d) tr ->
  visible_nested outers ci r = true /\ e02_nested outers ci r = false.
Proof. exact nested_visible. Qed.
Print Assumptions C01_nested_visible.

(* ... and the namespace the run ends with is covered by what this scope exports, so the premise
   [rt_env] of the next level down is met by induction along the chain. *)
Theorem C01_nested_final_covered : forall outers ci fuel ds p p' tr o ds',
  rt_env outers ci p ->
  runX fuel ci p ds = DoneX p' tr o ds' ->
  dabs p' (exit_chain (outers ++ [ci])).
Proof. exact nested_final_covered. Qed.
Print Assumptions C01_nested_final_covered.

Theorem C01_chain_defines_every_enclosing_binding : forall outers x c,
  In c outers -> In x (binds c) -> exists d, In (Some d) (exit_chain outers x).
Proof. exact exit_chain_defines. Qed.
Print Assumptions C01_chain_defines_every_enclosing_binding.

(* Non-vacuity:   def main():              def inner():
                      x = 1 (site 1)           print(x) (read 10)   - x free: bound by main
                      if c: y = 2 (site 2)     y = 3 (site 3)
                                               print(y) (read 11)   - y local
   called when main has bound x (to site 1): both reads succeed and are visible; the read of the
   free name lists main's final alternatives. *)
Definition ex_outer : cmd := Seq (Bind 1 0) (Branch (Bind 2 1) Skip).
Definition ex_inner : cmd := Seq (Read 10 0) (Seq (Bind 3 1) (Read 11 1)).
Definition ex_p : renv := fun x => if N.eqb x 0 then Some 1 else None.
Example C01_nested_example :
  rt_env [ex_outer] ex_inner ex_p /\
  (exists p' ds', runX 20 ex_inner ex_p [] = DoneX p' [(10, Some 1); (11, Some 3)] XN ds') /\
  forallb (alt_eqb (Some 1)) (seen_nested [ex_outer] ex_inner 10) = true /\
  forallb (alt_eqb (Some 3)) (seen_nested [ex_outer] ex_inner 11) = true /\
  visible_nested [ex_outer] ex_inner 10 = true.
Proof.
  split.
  - intros x d H. unfold ex_p in H. destruct (N.eqb x 0) eqn:E; [|discriminate H].
    apply N.eqb_eq in E. subst x. split; [reflexivity|].
    exists ex_outer. split; [left; reflexivity|left; reflexivity].
  - split; [eexists; eexists; vm_compute; reflexivity|].
    repeat split; vm_compute; reflexivity.
Qed.

(* ---- the LEGB premise discharged for an executable chain semantics (Model/NestedRun.v) ---------
   [run_chain]: every function defines the next one and calls it as its last statement; the callee
   starts with its own locals unbound and sees every other name as the caller's frame holds it at
   the time of the call (tied to CPython by part D of the check, traces compared in Coq).
   A run binds only names its body binds ... *)
Theorem C01_run_binds_only_own : forall fuel c p ds p' tr o ds' x d,
  runX fuel c p ds = DoneX p' tr o ds' -> p' x = Some d -> In x (binds c) \/ exists d', p x = Some d'.
Proof. exact runX_frame. Qed.
Print Assumptions C01_run_binds_only_own.

(* ... the analysis leaves every other name alone ... *)
Theorem C01_analysis_frame : forall c s x a, ~ In x (binds c) -> In a (an c s x) -> In a (s x).
Proof. exact an_frame. Qed.
Print Assumptions C01_analysis_frame.

(* ... so every namespace the chain semantics produces meets [rt_env], and for every chain of nested
   functions under the module, every fuel and every decision list: at every level that runs, every
   read that finds its name bound is visible to supp and not reported E02. *)
Theorem C01_chain_run_visible : forall fuel bodies ds,
  forallb level_visible (run_chain fuel [] bodies renv0 ds) = true.
Proof. exact module_chain_visible. Qed.
Print Assumptions C01_chain_run_visible.

(* Non-vacuity: main binds x and calls inner, which reads x (free), binds and reads y; two levels run *)
Example C01_chain_example :
  map snd (run_chain 20 [] [ex_outer; ex_inner] renv0 [0%nat]) = [[]; [(10, Some 1); (11, Some 3)]].
Proof. vm_compute. reflexivity. Qed.

(* ---- chains with CLASS levels (Model/NestedCls.v) ----------------------------------------------
   A class body is analysed from the enclosing FUNCTION levels' final environment without shadowing;
   a class level exports nothing to the scopes nested in it (tie (I): part D, chains mixing def and
   class levels).  Run-time premise [rt_env_k]: a name can be bound at the start of a body only if an
   enclosing function level (the module counts as one) binds it, and a function's own locals are
   unbound.  For function and class levels alike: a read that finds its name bound is visible, no E02. *)
Theorem C01_nested_visible_k : forall outers l fuel ds p p' tr o ds' r d,
  rt_env_k outers l p ->
  runX fuel (snd l) p ds = DoneX p' tr o ds' -> In (r, Some d) tr ->
  visible_k outers l r = true /\ e02_k outers l r = false.
Proof. exact nested_visible_k. Qed.
Print Assumptions C01_nested_visible_k.

Theorem C01_k_extends_function_chains : forall outers c r,
  seen_k (map (fun b => (KFun, b)) outers) (KFun, c) r = seen_nested outers c r.
Proof. exact seen_k_all_fun. Qed.
Print Assumptions C01_k_extends_function_chains.

(* Non-vacuity:  def main(): x = 1; if c: y = 2
                     class C:  y = 3 (site 3)
                         def m(self): print(x) (read 10); print(y) (read 12)
   m sees main's x and main's y (site 2) - never the class's y (site 3). *)
Definition ex_cls : cmd := Bind 3 1.
Definition ex_meth : cmd := Seq (Read 10 0) (Read 12 1).
Example C01_class_level_example :
  forallb (alt_eqb (Some 1)) (seen_k [(KFun, ex_outer); (KCls, ex_cls)] (KFun, ex_meth) 10) = true /\
  existsb (alt_eqb (Some 2)) (seen_k [(KFun, ex_outer); (KCls, ex_cls)] (KFun, ex_meth) 12) = true /\
  existsb (alt_eqb (Some 3)) (seen_k [(KFun, ex_outer); (KCls, ex_cls)] (KFun, ex_meth) 12) = false.
Proof. repeat split; vm_compute; reflexivity. Qed.

(* ---- beyond visibility: the definition actually read, across scopes (Model/NestedRunS.v) --------
   (the inter-scope counterpart of C02X_sound; C02 itself speaks about one scope only)
   On chains whose bodies are in the fragment [okx] of the C02 extension, when every function is called
   after its caller's body ran to its end (the "define everything, then call main()" shape): every read
   event of every level - the binding site obtained for a local OR a free name, or the failure - is
   among the alternatives supp lists for that read (go-to-definition is complete for closure and
   global reads made after the enclosing body finished; a failing read is flagged possibly undefined). *)
Theorem C01_chain_reads_sound : forall fuel bodies ds,
  forallb okx bodies = true -> forallb level_sound (run_chain_s fuel [] bodies renv0 ds) = true.
Proof. exact module_chain_sound. Qed.
Print Assumptions C01_chain_reads_sound.

Example C01_chain_reads_sound_example :
  forallb okx [ex_outer; ex_inner] = true /\
  map snd (run_chain_s 20 [] [ex_outer; ex_inner] renv0 [0%nat]) = [[]; [(10, Some 1); (11, Some 3)]].
Proof. split; vm_compute; reflexivity. Qed.

(* ... and no false "unused" across scopes (Model/NestedUsed.v: lint's usage marking over a chain, tied
   to lint's W01 sites by part D): a binding the marking leaves unused is read by no execution of the
   chain - neither in its own function nor through a closure. *)
Theorem C01_chain_no_false_unused : forall fuel bodies ds d,
  forallb okx bodies = true -> In d (unused_chain bodies) ->
  forall e, In e (run_chain_s fuel [] bodies renv0 ds) -> forall r, ~ In (r, Some d) (snd e).
Proof. exact chain_no_false_unused. Qed.
Print Assumptions C01_chain_no_false_unused.

(* Non-vacuity: main's x (site 1) is used only by inner's free read; main's y (site 2) is shadowed by
   inner's own y and stays unused *)
Example C01_chain_unused_example : unused_chain [ex_outer; ex_inner] = [2%N].
Proof. vm_compute. reflexivity. Qed.
