(* C11 - every reported position points at the identifier it names.
   Statements only; proofs are in Proofs/TextProofs.v. Model: Model/Text.v (scope.py find_id_loc). *)
From Coq Require Import List Bool Arith NArith.
Import ListNotations.
From Supp Require Import Model.Text Proofs.TextProofs.

(* For every text (list of newline-free lines), identifier, start and delimiter mode: when the
   search does not take the fall-back, the text at the reported (line, column - shift) starts
   with exactly the searched identifier, and the line is not before the statement. *)
Theorem C11_find_sound : forall lines id sl pos shift d l c,
  1 <= sl -> id <> [] -> ~ In nl id -> (forall ln, In ln lines -> ~ In nl ln) ->
  found lines id sl pos d = true ->
  find_id_loc lines id sl pos shift d = (l, c) ->
  shift <= c /\ sl <= l /\ exists t, text_at lines l (c - shift) = id ++ t.
Proof. exact find_id_loc_sound. Qed.
Print Assumptions C11_find_sound.

(* With delimiters on, the reported occurrence is flanked by the delimiter sets (so it is a whole
   token, not a substring of a longer identifier), and it is the first such occurrence. *)
Theorem C11_find_flanked_first : forall ls rs id from src p,
  scan (Some (ls, rs)) id from 0 None src = Some p ->
  (p = 0 \/ exists c, prev_of src p = Some c /\ memN c ls = true) /\
  (skipn (length id) (skipn p src) = [] \/
     exists c r, skipn (length id) (skipn p src) = c :: r /\ memN c rs = true) /\
  forall q, from <= q -> q < p -> accept_at (Some (ls, rs)) id src q = false.
Proof.
  intros ls rs id from src p H. destruct (scan_sound _ _ _ _ _ H) as (_ & _ & Hacc).
  destruct (accept_flanks _ _ _ _ _ Hacc) as [A B]. split; [exact A|]. split; [exact B|].
  exact (scan_first _ _ _ _ _ H).
Qed.
Print Assumptions C11_find_flanked_first.

(* The fall-back (position of the statement instead of the identifier) is taken only when no
   accepted occurrence exists in the 51-line window after the start. *)
Theorem C11_find_complete : forall lines id sl pos d q,
  S pos <= q -> q < length (join (window lines sl)) ->
  accept_at d id (join (window lines sl)) q = true ->
  found lines id sl pos d = true.
Proof. exact find_id_loc_complete. Qed.
Print Assumptions C11_find_complete.

(* Non-vacuity: "from os import (path,\n  sep as s)" - the alias on the second line is found. *)
Example C11_example :
  let lines := [[102;114;111;109;32;111;115;32;105;109;112;111;114;116;32;40;112;97;116;104;44];
                [32;32;115;101;112;32;97;115;32;115;41]]%N in
  found lines [115]%N 1 0 (Some (import_delims, import_end_delims)) = true /\
  find_id_loc lines [115]%N 1 0 0 (Some (import_delims, import_end_delims)) = (2, 9).
Proof. vm_compute. split; reflexivity. Qed.
