(* C03 - no phantom definitions; "possibly undefined" exact; never-bound names flagged.
   Statements only. Proofs: Proofs/ReachComplete.v (completeness), Proofs/ReachProofs.v (soundness). *)
From Coq Require Import List Bool Arith NArith.
Import ListNotations.
From Supp Require Import Model.PyCore Model.Reach Model.Sem Proofs.ReachProofs Proofs.SemProofs Proofs.ReachComplete.
From Supp Require Import Model.ReachX Proofs.ReachXProofs.

(* Domain: Return-free commands (known finding K1: supp has no flow termination) in which every
   try with handlers can raise at both designated points ([full_raise]); read sites are not shared
   between names. For such programs of any size, the alternatives supp lists for a read are
   EXACTLY the bindings (or "unbound") some execution from the scope entry delivers there. *)
Theorem C03_exact : forall c, has_ret c = false -> full_raise c = true ->
  forall r x, uniq (reads c) r x ->
  forall a, In a (seen c aenv0 r) <-> exists tr o p', exec c renv0 tr o p' /\ In (r, a) tr.
Proof. exact seen_exact. Qed.
Print Assumptions C03_exact.

(* no phantom definitions *)
Theorem C03_no_phantom : forall c, has_ret c = false -> full_raise c = true ->
  forall (P : renv -> Prop) s r x a,
    In (r, x) (reads c) ->
    (forall r' y, In (r', y) (reads c) -> r' = r -> y = x) ->
    realis P s x -> (exists p0, P p0) -> In a (seen c s r) ->
    exists p tr o p', P p /\ exec c p tr o p' /\ In (r, a) tr.
Proof. exact complete. Qed.
Print Assumptions C03_no_phantom.

(* "possibly undefined" is exact *)
Theorem C03_undefined_exact : forall c, has_ret c = false -> full_raise c = true ->
  forall r x, In (r, x) (reads c) ->
  (forall r' y, In (r', y) (reads c) -> r' = r -> y = x) ->
  (In None (seen c aenv0 r) <-> exists tr o p', exec c renv0 tr o p' /\ In (r, None) tr).
Proof. exact undefined_exact. Qed.
Print Assumptions C03_undefined_exact.

(* a name unbound on every path to the read is reported as 'Undefined name', and only then *)
Theorem C03_never_bound_flagged : forall c, has_ret c = false -> full_raise c = true ->
  forall r x, uniq (reads c) r x ->
  (e02 c aenv0 r = true <-> forall tr o p' d, exec c renv0 tr o p' -> ~ In (r, Some d) tr).
Proof. exact e02_exact. Qed.
Print Assumptions C03_never_bound_flagged.

(* the executions quantified over are exactly the runs of the interpreter that the harness
   compares with CPython *)
Theorem C03_exec_is_run : forall c p tr o p',
  exec c p tr o p' <-> exists fuel ds, run fuel c p ds = Done p' tr o [].
Proof. exact exec_iff_run. Qed.
Print Assumptions C03_exec_is_run.

Local Open Scope N_scope.

(* Full statement (without the Return-free restriction) is FALSE of the faithful model: known
   finding K1.   if c: x = 1; return      (site 1)
                 else: x = 2              (site 2)
                 print(x)                 (read 10)
   supp lists site 1 for the read although no execution delivers it. *)
Definition ex_k1 : cmd := Seq (Branch (Seq (Bind 1 0) Return) (Bind 2 0)) (Read 10 0).
Theorem C03_full_refuted :
  In (Some 1) (seen ex_k1 aenv0 10) /\
  forall tr o p', exec ex_k1 renv0 tr o p' -> ~ In (10, Some 1) tr.
Proof.
  split; [vm_compute; auto|].
  intros tr o p' He Hin. unfold ex_k1 in He.
  inversion He; subst; clear He.
  - (* the branch ended normally: it was the else branch *)
    match goal with H : exec (Branch _ _) _ _ ONorm _ |- _ => inversion H; subst; clear H end.
    + match goal with H : exec (Seq (Bind 1 0) Return) _ _ ONorm _ |- _ => inversion H; subst; clear H end.
      match goal with H : exec Return _ _ ONorm _ |- _ => inversion H end.
    + match goal with H : exec (Bind 2 0) _ _ _ _ |- _ => inversion H; subst; clear H end.
      match goal with H : exec (Read 10 0) _ _ _ _ |- _ => inversion H; subst; clear H end.
      simpl in Hin. destruct Hin as [Hin|[]]. vm_compute in Hin. discriminate.
  - (* the branch returned: the read is never executed *)
    match goal with H : exec (Branch _ _) _ _ ORet _ |- _ => inversion H; subst; clear H end.
    + match goal with H : exec (Seq (Bind 1 0) Return) _ _ ORet _ |- _ => inversion H; subst; clear H end.
      * match goal with H : exec (Bind 1 0) _ _ _ _ |- _ => inversion H; subst; clear H end.
        match goal with H : exec Return _ _ _ _ |- _ => inversion H; subst; clear H end.
        simpl in Hin. contradiction.
      * match goal with H : exec (Bind 1 0) _ _ ORet _ |- _ => inversion H end.
    + match goal with H : exec (Bind 2 0) _ _ ORet _ |- _ => inversion H end.
Qed.
Print Assumptions C03_full_refuted.

(* Non-vacuity: a try/except program meets the hypotheses and has a two-alternative row. *)
Definition ex_try : cmd :=
  Seq (Try true (Bind 1 0) true (HCons Skip None (Read 5 0) HNil) Skip Skip) (Read 6 0).
Example C03_example :
  has_ret ex_try = false /\ full_raise ex_try = true /\ uniq (reads ex_try) 5 0 /\
  seen ex_try aenv0 5 = [None; Some 1].
Proof.
  repeat split; try reflexivity.
  intros r' y Hin Heq. simpl in Hin. destruct Hin as [H|[H|[]]]; injection H as <- <-; [reflexivity|discriminate].
Qed.

(* Since /repo fixes F62/F62b supp's analysis has `break`/`continue` edges (Model/ReachX.v). On the domain of
   this property (no break / continue) it lists exactly the alternatives of the analysis the theorems above
   speak about, for every read site and every entry environment - so they are theorems about the code. *)
Theorem C03_same_rows_with_exit_edges : forall c s r, nobc c = true ->
  forall a, In a (seenx c s r) <-> In a (seen c s r).
Proof.
  intros c s r Hn a. destruct (proj2 (anx_nobc c s Hn) r) as [H1 H2]. split; [apply H1|apply H2].
Qed.
Print Assumptions C03_same_rows_with_exit_edges.
