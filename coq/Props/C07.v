(* C07 - module resolution agrees with Python's import system.
   Statements only; proofs in Proofs/ImportsProofs.v; models in Model/Imports.v.

   IMPL = supp/project.py (Project._find, get_module, norm_package, list_packages with the fixes
   F24a-F24d) and supp/util.py (split_pkg, join_pkg); REF = importlib (FileFinder / PathFinder /
   parent-package walk, util.resolve_name) and pkgutil.iter_modules.
   Every theorem quantifies over ALL file systems [fs : path -> kind], all directory listings, all
   suffix lists, any number of search roots [dirs] and names / trees of any depth.  The property's
   domain ("no namespace packages, no module file next to a package directory of the same name") is
   the decidable predicate [dom], evaluated along the directories importlib looks into. *)
From Coq Require Import Ascii String.
From Coq Require Import List Bool Arith.
Import ListNotations.
From Supp Require Import Model.Imports Proofs.ImportsProofs.

(* get_module finds exactly the file importlib finds (source file analysed / non-source handed to
   the interpreter), fails exactly when importlib finds nothing and the module is not already
   loaded; inside the domain importlib never answers "namespace package". *)
Theorem C07_get_module_agrees : forall fs sfx loaded dirs name,
  name <> [] -> dom fs sfx dirs name = true ->
  (forall f src pd, importlib_walk fs sfx dirs name = RFound (f, src, pd) ->
     get_module fs sfx loaded dirs name = if src then GSource f else GRuntime f) /\
  (importlib_walk fs sfx dirs name = RNotFound ->
     get_module fs sfx loaded dirs name = if mem_name name loaded then GLoaded else GImportError) /\
  importlib_walk fs sfx dirs name <> RNamespace /\
  (get_module fs sfx loaded dirs name = GImportError <->
     importlib_walk fs sfx dirs name = RNotFound /\ mem_name name loaded = false).
Proof. exact get_module_spec. Qed.
Print Assumptions C07_get_module_agrees.

(* The search itself: same file, same kind (source or not), same package directory. *)
Theorem C07_search_agrees : forall fs sfx dirs name,
  name <> [] -> dom fs sfx dirs name = true ->
  importlib_walk fs sfx dirs name = to_rres (impl_lookup fs sfx dirs name).
Proof. intros fs sfx dirs name. exact (walk_agree fs sfx name dirs). Qed.
Print Assumptions C07_search_agrees.

(* Relative names: from the file importlib loads for [name], '.'*level + rest is normalised by
   norm_package exactly as importlib.util.resolve_name does with that module's __package__,
   including the error "beyond the top-level package" (NErr on both sides). Hypothesis root_ok: no
   search root, nor a directory above it, is itself a package directory. *)
Theorem C07_norm_package_agrees : forall fs sfx dirs name level rest f src pd,
  name <> [] -> dom fs sfx dirs name = true -> forallb (root_ok fs) dirs = true ->
  importlib_walk fs sfx dirs name = RFound (f, src, pd) ->
  norm_package fs level rest f = resolve_name level rest (spec_parent name (f, src, pd)).
Proof. intros fs sfx dirs name level rest f src pd. exact (norm_agree fs sfx dirs name level rest f src pd). Qed.
Print Assumptions C07_norm_package_agrees.

(* File names relative to the working directory (Project() defaults to sources ['.']): the climb ends
   at '' instead of going above the working directory, and the answer is the one for the absolute
   name of the same file, for every level - in particular the error beyond the top-level package -
   provided the working directory is not inside a package. Together with
   C07_norm_package_agrees: relative file names resolve as importlib.util.resolve_name does. *)
Theorem C07_norm_relative_file_name : forall fs cwd level rest rel,
  (forall k, exists_ fs (firstn k cwd ++ [init_py]) = false) ->
  norm_package_rel fs cwd level rest rel = norm_package fs level rest (cwd ++ rel).
Proof. intros fs cwd level rest rel H. exact (norm_rel_abs fs cwd H level rest rel). Qed.
Print Assumptions C07_norm_relative_file_name.

(* Submodule proposals, lower bound: every child pkgutil.iter_modules enumerates in the package's
   directory (or in the roots, for the top level) is proposed. Hypotheses: sfx_ordered (no suffix stands
   before a longer suffix ending with it, so supp's first matching suffix is getmodulename's longest
   one); dir_ok2 (module-like entries of the listed directory are regular files, and pkgutil and supp
   agree on which sub-directories are packages). *)
Theorem C07_children_lower : forall fs ls sfx loaded dirs pkg m,
  sfx_ordered sfx = true -> dom fs sfx dirs pkg = true ->
  (forall d, In d (listed fs sfx dirs pkg) -> dir_ok2 fs ls sfx d = true) ->
  In m (children_importlib fs ls sfx dirs pkg) -> In m (list_packages fs ls sfx loaded dirs pkg).
Proof. exact children_lower2. Qed.
Print Assumptions C07_children_lower.

(* Upper bound: whatever is proposed is already loaded (a key pkg.m[.…] of sys.modules) or importlib
   finds a file for pkg.m. *)
Theorem C07_children_upper : forall fs ls sfx loaded dirs pkg m,
  sfx_ordered sfx = true -> In py sfx -> dom fs sfx dirs pkg = true ->
  (forall d n, In d (listed fs sfx dirs pkg) -> In n (ls d) -> exists_ fs (d ++ [n]) = true) ->
  (forall d, In d (listed fs sfx dirs pkg) -> dir_ok2 fs ls sfx d = true) ->
  In m (list_packages fs ls sfx loaded dirs pkg) ->
  (exists L tail, In L loaded /\ L = pkg ++ m :: tail) \/
  (exists h, importlib_walk fs sfx dirs (pkg ++ [m]) = RFound h).
Proof. exact children_upper2. Qed.
Print Assumptions C07_children_upper.

(* join_pkg (split_pkg s) = s for every string that contains a dot (any relative name, any name
   with a package part); a bare name 'boo' splits into ('', 'boo'). *)
Theorem C07_join_split : forall s, has_dot s = true -> let (h, t) := split_pkg s in join_pkg h t = s.
Proof. exact join_split. Qed.
Print Assumptions C07_join_split.

Theorem C07_split_single : forall s, has_dot s = false -> s <> [] -> split_pkg s = ([], s).
Proof. exact split_single. Qed.
Print Assumptions C07_split_single.


(* On written names: '.'*level + 'a.b.c' (components non-empty and dot-free, any level, any number of
   components) is cut by split_pkg into the written name of its package part and the last component,
   and join_pkg puts the two back together unless there is no package part at all. *)
Theorem C07_split_written : forall level cs c,
  forallb comp_ok cs = true -> comp_ok c = true ->
  split_pkg (render level (cs ++ [c])) = (render level cs, c).
Proof. exact split_render. Qed.
Print Assumptions C07_split_written.

Theorem C07_join_written : forall level cs c,
  forallb comp_ok cs = true -> (level <> 0 \/ cs <> []) ->
  join_pkg (render level cs) c = render level (cs ++ [c]).
Proof. exact join_render. Qed.
Print Assumptions C07_join_written.

(* ------------------------------------------------------------------------------------------------
   Non-vacuity and the defects of the snapshot, on concrete trees. *)

Local Open Scope string_scope.
Definition SO : str := S_ ".so".
Definition sfx_fixed : list str := [SO; py; S_ ".pyc"].        (* FileFinder loader order *)
Definition sfx_pinned : list str := [py; S_ ".pyc"; SO].       (* all_suffixes() order of the snapshot *)
Definition P (l : list string) : path := map S_ l.

(* two roots; r1/pkg is a package with a sub-package three levels deep, r2 has a module of the same
   name as the package and a second pkg directory that importlib never looks into *)
Definition tree1 : list (path * kind) :=
  [ (P ["r1"], Dir); (P ["r1"; "pkg"], Dir); (P ["r1"; "pkg"; "__init__.py"], File);
    (P ["r1"; "pkg"; "sub"], Dir); (P ["r1"; "pkg"; "sub"; "__init__.py"], File);
    (P ["r1"; "pkg"; "sub"; "deep"], Dir); (P ["r1"; "pkg"; "sub"; "deep"; "__init__.py"], File);
    (P ["r1"; "pkg"; "sub"; "deep"; "m.py"], File); (P ["r1"; "pkg"; "ext.so"], File);
    (P ["r2"], Dir); (P ["r2"; "pkg"], Dir); (P ["r2"; "pkg"; "__init__.py"], File);
    (P ["r2"; "pkg"; "mod.py"], File); (P ["r2"; "other.py"], File) ].
Definition roots1 : list path := [P ["r1"]; P ["r2"]].

Example C07_example_found :
  let name := P ["pkg"; "sub"; "deep"; "m"] in
  dom (fs_of tree1) sfx_fixed roots1 name = true /\
  importlib_walk (fs_of tree1) sfx_fixed roots1 name =
    RFound (P ["r1"; "pkg"; "sub"; "deep"; "m.py"], true, None) /\
  get_module (fs_of tree1) sfx_fixed [] roots1 name = GSource (P ["r1"; "pkg"; "sub"; "deep"; "m.py"]) /\
  get_module (fs_of tree1) sfx_fixed [] roots1 (P ["pkg"; "ext"]) = GRuntime (P ["r1"; "pkg"; "ext.so"]) /\
  get_module (fs_of tree1) sfx_fixed [] roots1 (P ["other"]) = GSource (P ["r2"; "other.py"]).
Proof. vm_compute. repeat split; reflexivity. Qed.

(* F24a, as fixed: pkg is bound to r1/pkg, so pkg.mod (which exists only under r2/pkg) is not found
   by importlib nor by the repaired search; the snapshot's search finds r2/pkg/mod.py. *)
Example C07_example_F24a :
  let name := P ["pkg"; "mod"] in
  dom (fs_of tree1) sfx_fixed roots1 name = true /\
  importlib_walk (fs_of tree1) sfx_fixed roots1 name = RNotFound /\
  get_module (fs_of tree1) sfx_fixed [] roots1 name = GImportError /\
  get_module_pinned (fs_of tree1) sfx_fixed [] roots1 name = GSource (P ["r2"; "pkg"; "mod.py"]).
Proof. vm_compute. repeat split; reflexivity. Qed.

Theorem C07_snapshot_refuted_F24a : exists fs sfx dirs name,
  name <> [] /\ dom fs sfx dirs name = true /\ importlib_walk fs sfx dirs name = RNotFound /\
  get_module_pinned fs sfx [] dirs name <> GImportError.
Proof.
  exists (fs_of tree1), sfx_fixed, roots1, (P ["pkg"; "mod"]).
  split; [discriminate|]. vm_compute. repeat split; discriminate.
Qed.
Print Assumptions C07_snapshot_refuted_F24a.

(* F24c: with the snapshot's suffix order (source first) a source file next to its compiled
   extension is resolved to the source, importlib loads the extension. *)
Definition tree2 : list (path * kind) :=
  [ (P ["r"], Dir); (P ["r"; "x.py"], File); (P ["r"; "x.so"], File) ].

Theorem C07_snapshot_refuted_F24c :
  dom (fs_of tree2) sfx_fixed [P ["r"]] (P ["x"]) = true /\
  importlib_walk (fs_of tree2) sfx_fixed [P ["r"]] (P ["x"]) = RFound (P ["r"; "x.so"], false, None) /\
  impl_lookup (fs_of tree2) sfx_pinned [P ["r"]] (P ["x"]) = Some (P ["r"; "x.py"], true, None) /\
  impl_lookup (fs_of tree2) sfx_fixed [P ["r"]] (P ["x"]) = Some (P ["r"; "x.so"], false, None).
Proof. vm_compute. repeat split; reflexivity. Qed.
Print Assumptions C07_snapshot_refuted_F24c.

(* relative names from r1/pkg/sub/deep/m.py: levels 1..4, the last one beyond the top-level package *)
Example C07_example_norm :
  let f := P ["r1"; "pkg"; "sub"; "deep"; "m.py"] in
  forallb (root_ok (fs_of tree1)) roots1 = true /\
  norm_package (fs_of tree1) 1 (P ["x"]) f = NOk (P ["pkg"; "sub"; "deep"; "x"]) /\
  norm_package (fs_of tree1) 3 [] f = NOk (P ["pkg"]) /\
  norm_package (fs_of tree1) 4 (P ["x"]) f = NErr /\
  resolve_name 4 (P ["x"]) (P ["pkg"; "sub"; "deep"]) = NErr /\
  resolve_name 3 [] (P ["pkg"; "sub"; "deep"]) = NOk (P ["pkg"]).
Proof. vm_compute. repeat split; reflexivity. Qed.

(* the same file named relative to the working directory r1: 'pkg/sub/deep/m.py'; level 4 = depth+1 *)
Example C07_example_norm_relative :
  let rel := P ["pkg"; "sub"; "deep"; "m.py"] in
  norm_package_rel (fs_of tree1) (P ["r1"]) 1 (P ["x"]) rel = NOk (P ["pkg"; "sub"; "deep"; "x"]) /\
  norm_package_rel (fs_of tree1) (P ["r1"]) 3 (P ["x"]) rel = NOk (P ["pkg"; "x"]) /\
  norm_package_rel (fs_of tree1) (P ["r1"]) 4 (P ["x"]) rel = NErr /\
  norm_package_rel (fs_of tree1) (P ["r1"]) 6 [] rel = NErr.
Proof. vm_compute. repeat split; reflexivity. Qed.

(* a source root that is on sys.path as well (r2 first as source root, then again behind r1): the
   first occurrence decides, pkg is r2/pkg and pkg.mod is found *)
Example C07_example_root_also_on_syspath :
  let dirs := [P ["r2"]; P ["r1"]; P ["r2"]] in
  dom (fs_of tree1) sfx_fixed dirs (P ["pkg"; "mod"]) = true /\
  importlib_walk (fs_of tree1) sfx_fixed dirs (P ["pkg"; "mod"]) = RFound (P ["r2"; "pkg"; "mod.py"], true, None) /\
  get_module (fs_of tree1) sfx_fixed [] dirs (P ["pkg"; "mod"]) = GSource (P ["r2"; "pkg"; "mod.py"]) /\
  get_module (fs_of tree1) sfx_fixed [] [P ["r1"]; P ["r2"]] (P ["pkg"; "mod"]) = GImportError.
Proof. vm_compute. repeat split; reflexivity. Qed.

(* children of pkg: importlib binds pkg to r1/pkg; r2/pkg/mod.py is not a child (F24a for
   list_packages), 'ext' and 'sub' are; a dotted stem is not proposed (F24d) *)
Definition tree3 : list (path * kind) := (tree1 ++ [ (P ["r1"; "pkg"; "a.b.py"], File) ])%list.
Example C07_example_children :
  dom (fs_of tree3) sfx_fixed roots1 (P ["pkg"]) = true /\
  forallb (dir_ok2 (fs_of tree3) (ls_of tree3) sfx_fixed) (listed (fs_of tree3) sfx_fixed roots1 (P ["pkg"])) = true /\
  sfx_ordered sfx_fixed = true /\
  sfx_ordered (map S_ [".cpython-312-x86_64-linux-gnu.so"; ".abi3.so"; ".so"; ".py"; ".pyc"]) = true /\
  sfx_ordered (map S_ [".so"; ".abi3.so"]) = false /\
  children_importlib (fs_of tree3) (ls_of tree3) sfx_fixed roots1 (P ["pkg"]) = P ["sub"; "ext"] /\
  list_packages (fs_of tree3) (ls_of tree3) sfx_fixed [P ["pkg"; "loaded"; "x"]] roots1 (P ["pkg"]) = P ["loaded"; "sub"; "ext"].
Proof. vm_compute. repeat split; reflexivity. Qed.

Example C07_example_written :
  render 2 [S_ "foo"; S_ "boo"] = S_ "..foo.boo" /\ forallb comp_ok [S_ "foo"; S_ "boo"] = true.
Proof. vm_compute. split; reflexivity. Qed.

Example C07_example_split :
  split_pkg (S_ "..foo.boo") = (S_ "..foo", S_ "boo") /\ split_pkg (S_ ".foo") = (S_ ".", S_ "foo") /\
  split_pkg (S_ "os.") = (S_ "os", []) /\ join_pkg (S_ "..") (S_ "x") = S_ "..x" /\
  join_pkg (S_ "a.b") (S_ "c") = S_ "a.b.c".
Proof. vm_compute. repeat split; reflexivity. Qed.
