(* C15 - remote calls are transparent and failures are isolated.
   Statements only; proofs are in Proofs/RpcProofs.v. Model: Model/Rpc.v
   (server.py:38-49 Server.process, server.py:71-95 Server.run, remote.py:92-104 Environment._call,
   over two FIFO queues of byte messages).

   [world] packs what the protocol logic cannot see (the in-process functions [api], umsgpack's
   value conversion and byte codec); [world_ok] is what is assumed about it (C14's round trip is the
   field codec_rt).  [benign W ps rs] is the property's domain: every request of [rs] can be
   serialised by the client, is not the 'close' message, and its in-process execution does not
   raise a BaseException that `except Exception` lets through (SystemExit, KeyboardInterrupt). *)
From Coq Require Import List Bool Arith ZArith NArith.
Import ListNotations.
From Supp Require Import Model.Rpc Proofs.RpcProofs.

(* Transparency, for request lists of ANY length: the list of observations made by the caller of
   Environment._call is the map of [expected] over the outcomes of the in-process run; the project
   state of the server is the in-process one; the server loop is still running; nothing is left in
   either queue (so nothing can pair with a later request). *)
Theorem C15_transparent : forall W, world_ok W -> forall ps rs, benign W ps rs ->
  fst (run_calls W (init W ps) rs) = map (expected W) (inproc_trace W ps rs) /\
  proj (snd (run_calls W (init W ps) rs)) = inproc_state W ps rs /\
  running (snd (run_calls W (init W ps) rs)) = true /\
  c2s (snd (run_calls W (init W ps) rs)) = [] /\
  s2c (snd (run_calls W (init W ps) rs)) = [].
Proof. exact transparent. Qed.
Print Assumptions C15_transparent.

(* What [expected] is, case by case:
   a returned value arrives with tuples as lists;
   an exception caught by Server.process arrives as an exception carrying the server's message
   (this includes AttributeError for an unknown method and TypeError for wrong arguments, which are
   [Raise] outcomes of [api]);
   a result (or an error message) that cannot be serialised arrives as 'Serialize error'. *)
Theorem C15_expected_cases : forall W,
  (forall v, serialisable W (reply_val W v true) = true ->
             expected W (Ret v) = Returned (normalise W v)) /\
  (forall v, serialisable W (reply_val W v true) = false ->
             expected W (Ret v) = Raised (serr_text W)) /\
  (forall c m, serialisable W (reply_val W (exc_val W c m) false) = true ->
               expected W (Raise c m) = Raised m) /\
  (forall c m, serialisable W (reply_val W (exc_val W c m) false) = false ->
               expected W (Raise c m) = Raised (serr_text W)).
Proof.
  intros W. repeat split; intros; unfold expected; rewrite H; reflexivity.
Qed.
Print Assumptions C15_expected_cases.

(* Replies pair with requests in order: the reply to the request at index |pre| is computed from
   that request and the in-process state after the |pre| requests before it, whatever these were
   (failing or not); after it the server is running and holds the in-process state. *)
Theorem C15_kth_reply : forall W, world_ok W -> forall ps pre r post,
  benign W ps (pre ++ r :: post) ->
  let ps_k := inproc_state W ps pre in
  nth_error (fst (run_calls W (init W ps) (pre ++ r :: post))) (length pre) =
    Some (expected W (fst (api W ps_k r))) /\
  let s_k := snd (run_calls W (init W ps) (pre ++ [r])) in
  running s_k = true /\ proj s_k = snd (api W ps_k r).
Proof. exact kth_reply. Qed.
Print Assumptions C15_kth_reply.

(* Failures are isolated: a request that leaves the in-process state as it was (unknown method,
   wrong arguments, a source that raises, an unserialisable result) inserted at ANY index changes
   no other reply: the observations are those of the sequence without it, with its own inserted. *)
Theorem C15_failure_isolated : forall W, world_ok W -> forall ps pre r post,
  benign W ps (pre ++ r :: post) ->
  snd (api W (inproc_state W ps pre) r) = inproc_state W ps pre ->
  let without := fst (run_calls W (init W ps) (pre ++ post)) in
  fst (run_calls W (init W ps) (pre ++ r :: post)) =
    firstn (length pre) without ++
    expected W (fst (api W (inproc_state W ps pre) r)) :: skipn (length pre) without.
Proof. exact failure_isolated. Qed.
Print Assumptions C15_failure_isolated.

(* If the in-process functions leave the state unchanged whenever they raise ([raise_pure]: true of
   the pinned wrappers, e.g. configure assigns self.project only after Project(...) returned; the
   check evaluates it on real servers by replaying sequences with and without the failing request),
   then EVERY request that raises, at ANY index, changes no other reply. *)
Theorem C15_raising_request_isolated : forall W, world_ok W -> raise_pure W ->
  forall ps pre r post c m,
  benign W ps (pre ++ r :: post) ->
  fst (api W (inproc_state W ps pre) r) = Raise c m ->
  let without := fst (run_calls W (init W ps) (pre ++ post)) in
  fst (run_calls W (init W ps) (pre ++ r :: post)) =
    firstn (length pre) without ++ expected W (Raise c m) :: skipn (length pre) without.
Proof. exact raising_request_isolated. Qed.
Print Assumptions C15_raising_request_isolated.

(* Pipelining at the connection level: sending all requests before reading any reply gives the
   same replies in the same order (and the same final state) as one call at a time. *)
Theorem C15_pipeline_in_order : forall W, world_ok W -> forall ps rs, benign W ps rs ->
  pipeline W (init W ps) rs = run_calls W (init W ps) rs.
Proof. exact pipeline_in_order. Qed.
Print Assumptions C15_pipeline_in_order.

(* Any interleaving (ANY schedule of: the client sends a request / the server runs one loop
   iteration / the client reads one reply; any number of requests in flight): the requests sent so
   far split, in order, into those served and those still queued; the replies read so far followed
   by the replies in flight are exactly the expected observations of the served requests in request
   order; the server is running and holds the in-process state after the served requests. *)
Theorem C15_any_interleaving : forall W, world_ok W -> forall ps sch,
  benign W ps (sends_of W sch) ->
  exists served pending,
    sends_of W sch = served ++ pending /\
    Forall2 (encoded W) pending (c2s (snd (run_sched W (init W ps) sch))) /\
    running (snd (run_sched W (init W ps) sch)) = true /\
    proj (snd (run_sched W (init W ps) sch)) = inproc_state W ps served /\
    fst (run_sched W (init W ps) sch) ++
      map (decode_reply W) (s2c (snd (run_sched W (init W ps) sch))) =
      map (expected W) (inproc_trace W ps served).
Proof. exact any_interleaving. Qed.
Print Assumptions C15_any_interleaving.

(* Hence the k-th reply read always answers the k-th request sent. *)
Theorem C15_replies_are_a_prefix : forall W, world_ok W -> forall ps sch,
  benign W ps (sends_of W sch) ->
  exists rest, map (expected W) (inproc_trace W ps (sends_of W sch)) =
               fst (run_sched W (init W ps) sch) ++ rest.
Proof. exact replies_are_a_prefix. Qed.
Print Assumptions C15_replies_are_a_prefix.

(* Outside the domain nothing is hidden: for EVERY request list the system refines the reference
   [ref_run], in which a request the client cannot serialise raises locally and reaches nobody,
   and 'close' or a BaseException stop the server, after which every call finds the connection
   dead (no stale or crossed reply). *)
Theorem C15_refines_reference : forall W, world_ok W -> forall ps rs,
  ref_run W (true, ps) rs =
    (fst (run_calls W (init W ps) rs),
     (running (snd (run_calls W (init W ps) rs)), proj (snd (run_calls W (init W ps) rs)))).
Proof. exact refines_reference. Qed.
Print Assumptions C15_refines_reference.

(* The concrete world evaluated by the correspondence run satisfies the assumptions, whatever the
   table of recorded outcomes (in particular: unpack (pack v) = v with tuples as lists, for all
   Python values of the data model, by induction on the value). *)
Theorem C15_concrete_world_ok : forall table, world_ok (concrete_world table).
Proof. exact concrete_world_ok. Qed.
Print Assumptions C15_concrete_world_ok.

(* Non-vacuity. Strings are interned: 0 'SerializeError', 1 'Serialize error', 2 'close',
   10 'configure', 11 'assist', 12 'nosuch', 13 'eval', 14 'lint', 20.. other texts.
   Requests: configure; assist -> ('pre', ['a','b']) ; nosuch -> AttributeError ;
   eval('return object()') -> unserialisable ; lint with one argument too many -> TypeError ;
   lint -> [('E01','msg',1,0)] ; eval -> {(1,2): 2**70} (huge int: not encodable). *)
Definition ex_table : list coutcome :=
  [ Ret PNone;
    Ret (PTuple [PStr true 20; PList [PStr true 21; PStr true 22]]);
    Raise 30%N (true, 31%N);
    Ret (PObj 1);
    Raise 32%N (true, 33%N);
    Ret (PList [PTuple [PStr true 23; PStr true 24; PInt 1; PInt 0]]);
    Ret (PDict [(PTuple [PInt 1; PInt 2], PInt (2 ^ 70))]) ].

Definition ex_req (name : N) (args : list pyv) : pyv :=
  PTuple [PStr true name; PTuple args; PDict []].

Definition ex_reqs : list pyv :=
  [ ex_req 10 [PDict [(PStr true 25, PList [PStr true 26])]];
    ex_req 11 [PStr true 27; PTuple [PInt 1; PInt 2]; PStr true 28];
    ex_req 12 [];
    ex_req 13 [PStr true 29];
    ex_req 14 [PStr true 27; PStr true 28; PBool false; PInt 7];
    ex_req 14 [PStr true 27; PStr true 28];
    ex_req 13 [PStr true 34] ].

Example C15_example_benign : benign (concrete_world ex_table) 0 ex_reqs.
Proof. vm_compute. repeat split; discriminate. Qed.

Example C15_example_run :
  fst (run_calls (concrete_world ex_table) (init (concrete_world ex_table) 0) ex_reqs) =
  [ Returned PNone;
    Returned (PList [PStr true 20; PList [PStr true 21; PStr true 22]]);
    Raised (true, 31%N);
    Raised (true, 1%N);
    Raised (true, 33%N);
    Returned (PList [PList [PStr true 23; PStr true 24; PInt 1; PInt 0]]);
    Raised (true, 1%N) ] /\
  running (snd (run_calls (concrete_world ex_table) (init (concrete_world ex_table) 0) ex_reqs)) = true.
Proof. vm_compute. split; reflexivity. Qed.

(* Outside the domain: eval('raise SystemExit') (a BaseException) stops the server; the caller and
   every later caller find the connection dead; a request holding a set cannot be sent at all. *)
Example C15_example_escape :
  let W := concrete_world [Ret PNone; Escape; Ret PNone] in
  let res := run_calls W (init W 0)
               [ex_req 10 []; ex_req 11 [PObj 3]; ex_req 13 [PStr true 35]; ex_req 10 []] in
  fst res = [Returned PNone; LocalError; ConnDead; ConnDead] /\
  running (snd res) = false /\ proj (snd res) = 2 /\ s2c (snd res) = [].
Proof. vm_compute. repeat split; reflexivity. Qed.

(* An interleaving with three requests in flight: two are answered and read, the third is still
   queued when the schedule stops. *)
Example C15_example_interleaving :
  let W := concrete_world ex_table in
  let send := fun r : pyv => @ASend W r in
  let sch := [send (ex_req 10 []); send (ex_req 11 []); ARecv; AServe; send (ex_req 12 []);
              ARecv; AServe; AServe; ARecv; ARecv; ARecv; send (ex_req 13 [])] in
  fst (run_sched W (init W 0) sch) =
    [Returned PNone; Returned (PList [PStr true 20; PList [PStr true 21; PStr true 22]]);
     Raised (true, 31%N)] /\
  length (c2s (snd (run_sched W (init W 0) sch))) = 1.
Proof. vm_compute. split; reflexivity. Qed.
