(* C06 - attribute completion and go-to-definition follow Python's lookup order (MRO + instance dict).
   Statements only; proofs are in Proofs/AttrsProofs.v.  Models: Model/Attrs.v
   (IMPL: name.py ClassObject._attrs, InstanceValue._attrs after fix F5; REF: Python's lookup).
   All theorems hold for EVERY class table: any depth, any width, any number of rows. *)
From Coq Require Import List Bool Arith NArith.
Import ListNotations.
From Supp Require Import Model.Attrs Proofs.AttrsProofs.

(* Go-to-definition on Class.attr: the class table of supp (bases folded right-to-left, then the
   class body) binds every name to the definition that Python's type lookup selects - the live
   binding in the first class of the MRO that defines it - and binds nothing else. *)
Theorem C06_class_lookup : forall (T : table) (c : cid) (x : name),
  get x (class_attrs T c) = py_class_lookup T c x.
Proof. exact class_lookup_correct. Qed.
Print Assumptions C06_class_lookup.

(* Go-to-definition on instance.attr (repaired InstanceValue._attrs): an instance assignment if some
   class of the MRO assigns the attribute through self, otherwise the type lookup. *)
Theorem C06_instance_lookup : forall (T : table) (c : cid) (x : name),
  get x (inst_attrs T c) = py_instance_lookup T c x.
Proof. exact instance_lookup_correct. Qed.
Print Assumptions C06_instance_lookup.

(* Completion on a class: exactly the class-body names along the MRO. *)
Theorem C06_class_keys : forall (T : table) (c : cid) (x : name),
  In x (keys (class_attrs T c)) <-> In x (py_class_keys T c).
Proof. exact class_keys_correct. Qed.
Print Assumptions C06_class_keys.

(* Completion on an instance: keys (inst_attrs c) = U_{k in mro c} (own k U self_assigned k). *)
Theorem C06_inst_keys : forall (T : table) (c : cid) (x : name),
  In x (keys (inst_attrs T c)) <->
  exists k, In k (mro T c) /\ (In x (keys (own (row T k))) \/ In x (keys (self_assigned (row T k)))).
Proof.
  intros T c x. rewrite inst_keys_correct. unfold py_inst_keys. rewrite in_flat_map.
  split; intros [k [Hk Hx]]; exists k; (split; [exact Hk|]); now apply in_app_iff.
Qed.
Print Assumptions C06_inst_keys.

(* Which self-assignment wins: the instance has ONE slot per name, so every `self.x = ...` of every
   class of the MRO is an acceptable landing site.  The table reports the assignments of the most
   derived assigning class; they are acceptable, and an instance answer exists whenever any class
   of the MRO assigns the name. *)
Theorem C06_instance_slot_acceptable : forall (T : table) (c : cid) (x : name) (ss : list site),
  get x (inst_attrs T c) = Some (InstAt ss) ->
  ss <> [] /\ incl ss (py_inst_sites T c x).
Proof. intros T c x ss H. rewrite instance_lookup_correct in H. now apply instance_slot_acceptable. Qed.
Print Assumptions C06_instance_slot_acceptable.

Theorem C06_instance_slot_complete : forall (T : table) (c : cid) (x : name),
  py_inst_sites T c x <> [] -> exists ss, get x (inst_attrs T c) = Some (InstAt ss).
Proof. intros T c x H. rewrite instance_lookup_correct. now apply instance_slot_complete. Qed.
Print Assumptions C06_instance_slot_complete.

(* The property's domain, as a decidable predicate (also the generator's filter): when no ancestor
   is reached twice, the reference MRO (first occurrences of the depth-first left-to-right walk) is
   the walk itself, and it IS the C3 linearisation CPython computes (typeobject.c), for hierarchies
   of any depth and width.  (That c3_mro/mro are CPython's order is also checked against
   type.__mro__ by correspondence (R); an `object` written explicitly must come last: object_last.) *)
Theorem C06_mro_domain : forall (T : table) (c : cid),
  no_repeated_ancestor T c = true -> mro T c = dfs T c.
Proof. exact mro_domain. Qed.
Print Assumptions C06_mro_domain.

Theorem C06_mro_is_c3 : forall (T : table) (c : cid),
  wf T = true -> c < length T -> no_repeated_ancestor T c = true ->
  c3_mro T c = C3Ok (mro T c).
Proof.
  intros T c W Hc H. rewrite (mro_domain T c H). apply c3_is_dfs; [exact W | exact Hc |].
  now apply nodupb_NoDup.
Qed.
Print Assumptions C06_mro_is_c3.

(* the restriction is needed: with a repeated ancestor (diamond 3(1,2), 1(0), 2(0)) C3 differs *)
Example C06_domain_needed :
  let D := [mkCls [] [] []; mkCls [0] [] []; mkCls [0] [] []; mkCls [1; 2] [] []] in
  no_repeated_ancestor D 3 = false /\ mro D 3 = [3; 1; 0; 2] /\ c3_mro D 3 = C3Ok [3; 1; 2; 0].
Proof. vm_compute. repeat split; reflexivity. Qed.

(* `cls` inside a classmethod is the class: supp (after fix F31) answers cls.attr from the class
   table (C06_class_lookup).  Answering it from the instance table, as the pinned tree does, agrees
   exactly when no class of the MRO assigns the name through self, and is wrong otherwise. *)
Theorem C06_cls_form_agrees : forall (T : table) (c : cid) (x : name),
  find (self_assigns T x) (mro T c) = None ->
  get x (inst_attrs T c) = option_map ClsAt (py_class_lookup T c x).
Proof. exact cls_form_agrees. Qed.
Print Assumptions C06_cls_form_agrees.

Theorem C06_cls_form_refuted : exists (T : table) (c : cid) (x : name),
  in_domain T c = true /\ wf T = true /\
  get x (inst_attrs T c) <> option_map ClsAt (py_class_lookup T c x).
Proof. exists f31_table, 1, 1%N. vm_compute. repeat split; discriminate. Qed.
Print Assumptions C06_cls_form_refuted.

(* CPython always puts `object` last (mro_real).  On the domain (an explicitly written `object` is
   reached last: object_last) every definition the reference lookup selects is the one CPython's
   order selects.  Outside that sub-domain the class table is wrong - OPEN FINDING "explicit object
   not last": class Base(object) / class Mixin: def __init__ / class C(Base, Mixin): C().__init__ is
   answered with object.__init__ (vars(object) merged through Base shadows Mixin.__init__). *)
Theorem C06_class_lookup_real_partial : forall (T : table) (c : cid) (x : name) (s : site),
  in_domain T c = true ->
  get x (class_attrs T c) = Some s -> py_class_lookup_real T c x = Some s.
Proof. intros T c x s D H. rewrite class_lookup_correct in H. now apply class_lookup_real. Qed.
Print Assumptions C06_class_lookup_real_partial.

Theorem C06_object_not_last_refuted : exists (T : table) (c : cid) (x : name) (s : site),
  no_repeated_ancestor T c = true /\ wf T = true /\ object_last T c = false /\
  py_class_lookup_real T c x = Some s /\ get x (class_attrs T c) <> Some s.
Proof. exists objfirst_table, 3, 1%N, (1, 5, 8)%N. vm_compute. repeat split; discriminate. Qed.
Print Assumptions C06_object_not_last_refuted.

(* Defect F5 (pinned tree): InstanceValue._attrs applied the base-INSTANCE tables, which contain
   the base CLASS tables, over the subclass's class table.  Witness:
     class Root:            (module 1, line 1)      row 1
         def meth(self): pass      (1, 2, 8)
     class Leaf(Root):                              row 2
         def meth(self): pass      (1, 4, 8)
   Leaf().meth lands on Root.meth. *)

Theorem C06_inst_refuted : exists (T : table) (c : cid) (x : name),
  in_domain T c = true /\ wf T = true /\
  get x (inst_attrs_asis T c) <> py_instance_lookup T c x.
Proof. exists f5_table, 2, 1%N. vm_compute. repeat split; discriminate. Qed.
Print Assumptions C06_inst_refuted.

(* Non-vacuity: depth 3, multiple inheritance with a builtin row, overrides at two levels,
   assignments through self in three classes (two of them to the same name).
     row 0 object (vars: 100)          row 1 Root: a(2) b(3), self.s (4)
     row 2 Mid(Root): a(6), self.t (8) (9)   row 3 Mix(object): m(10)
     row 4 Leaf(Mid, Mix): b(12), self.s (13) *)

Example C06_example :
  in_domain ex_table 4 = true /\ wf ex_table = true /\
  mro ex_table 4 = [4; 2; 1; 3; 0] /\
  get 1%N (inst_attrs ex_table 4) = Some (ClsAt (1, 6, 8)%N) /\
  get 2%N (class_attrs ex_table 4) = Some (1, 12, 4)%N /\
  get 5%N (inst_attrs ex_table 4) = Some (InstAt [(1, 13, 8)%N]) /\
  get 6%N (inst_attrs ex_table 4) = Some (InstAt [(1, 8, 8); (1, 9, 8)]%N) /\
  py_inst_sites ex_table 4 5%N = [(1, 13, 8); (1, 4, 8)]%N /\
  get 100%N (inst_attrs ex_table 4) = Some (ClsAt rt_site) /\
  get 9%N (inst_attrs ex_table 4) = None.
Proof. vm_compute. repeat split; reflexivity. Qed.
