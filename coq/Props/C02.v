(* C02 - the definition actually read is reported: no false "unused", goto-definition complete.
   Statements only. Models: Model/PyCore.v (programs), Model/Sem.v (what CPython binds),
   Model/Reach.v (supp's analysis: nast.py + scope.py). Proofs: Proofs/ReachProofs.v. *)
From Coq Require Import List Bool Arith NArith.
Import ListNotations.
From Supp Require Import Model.PyCore Model.Reach Model.Sem Proofs.ReachProofs Proofs.ReachCorollaries Proofs.ReachExtra.
From Supp Require Import Model.ReachX Model.SemX Model.SemXS Proofs.ReachXProofs.

(* For every program c of the structured fragment [ok] (any size, any nesting), every execution
   of it from any state p abstracted by the analysis state s (any branch outcomes, any number of
   loop trips, a caught exception at either designated point of any try body, early returns):
   every read event (r, v) of the execution is among the alternatives supp lists for r, and if
   the execution ends normally its final bindings are among those of the exit flow. *)
Theorem C02_sound : forall c p tr o p', exec c p tr o p' -> ok c = true -> forall s, abs p s ->
  (o = ONorm -> abs p' (an c s)) /\ forall r v, In (r, v) tr -> In v (seen c s r).
Proof. exact sound. Qed.
Print Assumptions C02_sound.

(* From the scope entry: a read that obtains the value bound at site d is told about d
   (go-to-definition lists d), d is marked used (no W01/W02 for it), the read is not reported as
   undefined and completion offers the name. *)
Theorem C02_read_definition_reported : forall c tr o p' r d,
  ok c = true -> exec c renv0 tr o p' -> In (r, Some d) tr ->
  In (Some d) (seen c aenv0 r) /\ used c aenv0 d = true /\
  e02 c aenv0 r = false /\ visible c aenv0 r = true.
Proof. exact c02_all. Qed.
Print Assumptions C02_read_definition_reported.

Theorem C02_no_false_unused : forall c d,
  ok c = true -> In d (unused_sites c aenv0) ->
  forall tr o p' r, exec c renv0 tr o p' -> ~ In (r, Some d) tr.
Proof. exact no_false_unused. Qed.
Print Assumptions C02_no_false_unused.

(* Non-vacuity: the loop-carried definition of defect F1.
     w = 0                       (site 1)
     for x in xs:                (site 2)
         if c: w = 2             (site 3)
         print(w)                (read 10)
         w = 1                   (site 4)
   Two trips: the read obtains w=1 of the previous trip; the model lists sites 1, 3, 4. *)
Local Open Scope N_scope.
Definition ex_f1 : cmd :=
  Seq (Bind 1 0) (For (Bind 2 1) (Seq (Branch (Bind 3 0) Skip) (Seq (Read 10 0) (Bind 4 0))) Skip).
Example C02_example :
  ok ex_f1 = true /\
  (exists tr o p', exec ex_f1 renv0 tr o p' /\ In (10%N, Some 4%N) tr) /\
  seen ex_f1 aenv0 10 = [Some 3; Some 1; Some 4]%N.
Proof.
  split; [reflexivity|]. split; [|reflexivity].
  exists [(10, Some 1); (10, Some 4)]%N, ONorm, (upd (upd (upd (upd (upd renv0 0 (Some 1)) 1 (Some 2)) 0 (Some 4)) 1 (Some 2)) 0 (Some 4))%N.
  split; [|right; left; reflexivity].
  unfold ex_f1.
  change [(10, Some 1); (10, Some 4)]%N with ([] ++ [(10, Some 1); (10, Some 4)])%N.
  eapply ESeqN; [apply EBind|].
  change [(10, Some 1); (10, Some 4)]%N with ([] ++ [(10, Some 1)] ++ [(10, Some 4)])%N.
  eapply EForIter.
  - apply EBind.
  - change [(10, Some 1)]%N with ([] ++ [(10, Some 1)])%N.
    eapply ESeqN; [apply EBrR; apply ESkip|].
    change [(10, Some 1)]%N with ([(10, Some 1)] ++ [])%N.
    eapply ESeqN; [apply (ERead 10 0)|apply EBind].
  - change [(10, Some 4)]%N with ([] ++ [(10, Some 4)] ++ [])%N.
    eapply EForIter.
    + apply EBind.
    + change [(10, Some 4)]%N with ([] ++ [(10, Some 4)])%N.
      eapply ESeqN; [apply EBrR; apply ESkip|].
      change [(10, Some 4)]%N with ([(10, Some 4)] ++ [])%N.
      eapply ESeqN; [apply (ERead 10 0)|apply EBind].
    + apply EForExit. apply ESkip.
Qed.

(* Without the restriction "no return inside a try that has a finally" the statement is FALSE of
   the faithful model: known finding K3.
       try:     x = 1 (site 1); if c: return; x = 2 (site 2)
       finally: print(x) (read 10)
   The execution that returns reads site 1 in the finally clause; supp lists only site 2 (and
   reports site 1 as unused). *)
Definition ex_k3 : cmd :=
  Try false (Seq (Bind 1 0) (Seq (Branch Return Skip) (Bind 2 0))) false HNil Skip (Read 10 0).
Theorem C02_unrestricted_refuted :
  ok ex_k3 = false /\
  (exists tr o p', exec ex_k3 renv0 tr o p' /\ In (10, Some 1) tr) /\
  ~ In (Some 1) (seen ex_k3 aenv0 10) /\ used ex_k3 aenv0 1 = false.
Proof.
  split; [reflexivity|]. split; [|split; [vm_compute; intros [H|[]]; discriminate|reflexivity]].
  exists [(10, Some 1)], ORet, (upd renv0 0 (Some 1)). split; [|left; reflexivity].
  unfold ex_k3. change [(10, Some 1)] with ([] ++ [(10, Some 1)]).
  eapply (ETryBodyRet false _ false HNil Skip (Read 10 0) renv0 [] (upd renv0 0 (Some 1)) [(10, Some 1)] ONorm).
  - change (@nil (site * alt)) with (@nil (site * alt) ++ []).
    eapply ESeqN; [apply EBind|]. apply ESeqR. apply EBrL. apply EReturn.
  - apply (ERead 10 0 (upd renv0 0 (Some 1))).
Qed.
Print Assumptions C02_unrestricted_refuted.

(* scope.py returns, for the flow that closes a loop, the names its resolution computed with the
   back edge skipped (instead of walking the body a second time): the two are equal as sets for
   every loop body, because the transfer function of a body is in gen/kill form. *)
Theorem C02_second_pass_adds_nothing : forall tg b s x a,
  In a (an b (an tg (join s (an b (an tg s)))) x) <-> In a (an b (an tg s) x).
Proof. exact ReachExtra.for_body_end_stable. Qed.
Print Assumptions C02_second_pass_adds_nothing.

(* ---- Extension beyond the property's stated domain: loops left by break / continue / return ----
   (/repo fixes F62, F62b made break and continue flow edges; Model/ReachX.v is the analysis with
   them, Model/SemXS.v the interpreter with every abrupt exit, raising only caught classes at the
   designated points.)  Fragment [okx]: return, break and continue anywhere except under a try
   statement with a finally clause and in a finally clause; no free raise. *)

(* For every program of [okx], every amount of fuel, every decision list and every state p
   abstracted by s: every read event of the run is among the alternatives listed for its site; a
   run that ends normally / at a break / at a continue ends in a state abstracted by the
   environment of the flow supp continues in / joins behind the loop / sends round the loop. *)
Theorem C02X_sound : forall fuel c p ds s, okx c = true -> abs p s -> goodX c s (runXs fuel c p ds).
Proof. exact soundx. Qed.
Print Assumptions C02X_sound.

Theorem C02X_read_definition_reported : forall fuel c ds p' tr o ds' r d,
  okx c = true -> runXs fuel c renv0 ds = DoneX p' tr o ds' -> In (r, Some d) tr ->
  In (Some d) (seenx c aenv0 r) /\ e02x c aenv0 r = false /\ usedx c aenv0 d = true.
Proof. exact c02x_sound. Qed.
Print Assumptions C02X_read_definition_reported.

Theorem C02X_no_false_unused : forall c d,
  okx c = true -> In d (unused_sitesx c aenv0) ->
  forall fuel ds p' tr o ds' r, runXs fuel c renv0 ds = DoneX p' tr o ds' -> ~ In (r, Some d) tr.
Proof. exact no_false_unusedx. Qed.
Print Assumptions C02X_no_false_unused.

(* The extended analysis is the old one on programs without break / continue (same sets of
   alternatives everywhere), so C02_sound and C02X_sound speak about the same code. *)
Theorem C02X_extends_C02 : forall c s, nobc c = true ->
  (sub (nrm (anx c s)) (an c s) /\ sub (an c s) (nrm (anx c s))) /\
  (forall r, subl (seenx c s r) (seen c s r) /\ subl (seen c s r) (seenx c s r)).
Proof. exact anx_nobc. Qed.
Print Assumptions C02X_extends_C02.

(* Non-vacuity (defect F62):   x = 0 (1);  for y in ys (2):  x = 1 (3); if c: break;  x = 2 (4)
                               print(x) (read 10)
   The run that breaks on the first trip reads site 3; the analysis with exit edges lists it, the
   analysis without them (the code before F62) does not. *)
Example C02X_example :
  okx ex_brk = true /\
  (exists p' tr o ds', runXs 50 ex_brk renv0 [1; 0]%nat = DoneX p' tr o ds' /\ In (10%N, Some 3%N) tr) /\
  In (Some 3%N) (seenx ex_brk aenv0 10%N) /\ ~ In (Some 3%N) (seen ex_brk aenv0 10%N).
Proof.
  split; [reflexivity|]. split; [|split; [apply ex_brk_seenx|apply ex_brk_seen_old]].
  vm_compute. do 4 eexists. split; [reflexivity|]. left. reflexivity.
Qed.

(* Outside [okx] the statement is FALSE of the faithful model (same family as K3): a break under
   a try with a finally clause -
     while c:  try:  x = 1 (1); if c: break;  x = 2 (2)   finally: print(x) (read 10)
   the finally clause reads site 1, supp lists only site 2 (and the binding before the loop). *)
Definition ex_brk_fin : cmd :=
  (While Skip (Try false (Seq (Bind 1 0) (Seq (Branch (Exit KBrk) Skip) (Bind 2 0))) false HNil Skip (Read 10 0)) Skip)%N.
Theorem C02X_exit_under_finally_refuted :
  okx ex_brk_fin = false /\
  (exists p' tr o ds', runXs 50 ex_brk_fin renv0 [1; 0]%nat = DoneX p' tr o ds' /\ In (10%N, Some 1%N) tr) /\
  existsb (alt_eqb (Some 1%N)) (seenx ex_brk_fin aenv0 10%N) = false.
Proof.
  split; [reflexivity|]. split; [|reflexivity].
  vm_compute. do 4 eexists. split; [reflexivity|]. left. reflexivity.
Qed.
Print Assumptions C02X_exit_under_finally_refuted.

(* ... and an exception raised in the MIDDLE of a try body (outside the property's domain, which
   raises only at the first or last statement):
     try:  x = 1 (1); if c: raise E0;  x = 2 (2)    except E0: print(x) (read 10)
   the handler reads site 1; supp joins only the states before and after the whole body. *)
Definition ex_mid_raise : cmd :=
  (Try false (Seq (Bind 1 0) (Seq (Branch (Exit (KExc 0)) Skip) (Bind 2 0))) false
       (HCons Skip None (Read 10 0) HNil) Skip Skip)%N.
Theorem C02X_mid_body_raise_refuted :
  okx ex_mid_raise = false /\
  (exists p' tr o ds', runXs 50 ex_mid_raise renv0 [0]%nat = DoneX p' tr o ds' /\ In (10%N, Some 1%N) tr) /\
  existsb (alt_eqb (Some 1%N)) (seenx ex_mid_raise aenv0 10%N) = false.
Proof.
  split; [reflexivity|]. split; [|reflexivity].
  vm_compute. do 4 eexists. split; [reflexivity|]. left. reflexivity.
Qed.
Print Assumptions C02X_mid_body_raise_refuted.
