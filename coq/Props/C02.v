(* C02 - the definition actually read is reported: no false "unused", goto-definition complete.
   Statements only. Models: Model/PyCore.v (programs), Model/Sem.v (what CPython binds),
   Model/Reach.v (supp's analysis: nast.py + scope.py). Proofs: Proofs/ReachProofs.v. *)
From Coq Require Import List Bool Arith NArith.
Import ListNotations.
From Supp Require Import Model.PyCore Model.Reach Model.Sem Proofs.ReachProofs Proofs.ReachCorollaries Proofs.ReachExtra.

(* For every program c of the structured fragment [ok] (any size, any nesting), every execution
   of it from any state p abstracted by the analysis state s (any branch outcomes, any number of
   loop trips, a caught exception at either designated point of any try body, early returns):
   every read event (r, v) of the execution is among the alternatives supp lists for r, and if
   the execution ends normally its final bindings are among those of the exit flow. *)
Theorem C02_sound : forall c p tr o p', exec c p tr o p' -> ok c = true -> forall s, abs p s ->
  (o = ONorm -> abs p' (an c s)) /\ forall r v, In (r, v) tr -> In v (seen c s r).
Proof. exact sound. Qed.
Print Assumptions C02_sound.

(* From the scope entry: a read that obtains the value bound at site d is told about d
   (go-to-definition lists d), d is marked used (no W01/W02 for it), the read is not reported as
   undefined and completion offers the name. *)
Theorem C02_read_definition_reported : forall c tr o p' r d,
  ok c = true -> exec c renv0 tr o p' -> In (r, Some d) tr ->
  In (Some d) (seen c aenv0 r) /\ used c aenv0 d = true /\
  e02 c aenv0 r = false /\ visible c aenv0 r = true.
Proof. exact c02_all. Qed.
Print Assumptions C02_read_definition_reported.

Theorem C02_no_false_unused : forall c d,
  ok c = true -> In d (unused_sites c aenv0) ->
  forall tr o p' r, exec c renv0 tr o p' -> ~ In (r, Some d) tr.
Proof. exact no_false_unused. Qed.
Print Assumptions C02_no_false_unused.

(* Non-vacuity: the loop-carried definition of defect F1.
     w = 0                       (site 1)
     for x in xs:                (site 2)
         if c: w = 2             (site 3)
         print(w)                (read 10)
         w = 1                   (site 4)
   Two trips: the read obtains w=1 of the previous trip; the model lists sites 1, 3, 4. *)
Local Open Scope N_scope.
Definition ex_f1 : cmd :=
  Seq (Bind 1 0) (For (Bind 2 1) (Seq (Branch (Bind 3 0) Skip) (Seq (Read 10 0) (Bind 4 0))) Skip).
Example C02_example :
  ok ex_f1 = true /\
  (exists tr o p', exec ex_f1 renv0 tr o p' /\ In (10%N, Some 4%N) tr) /\
  seen ex_f1 aenv0 10 = [Some 3; Some 1; Some 4]%N.
Proof.
  split; [reflexivity|]. split; [|reflexivity].
  exists [(10, Some 1); (10, Some 4)]%N, ONorm, (upd (upd (upd (upd (upd renv0 0 (Some 1)) 1 (Some 2)) 0 (Some 4)) 1 (Some 2)) 0 (Some 4))%N.
  split; [|right; left; reflexivity].
  unfold ex_f1.
  change [(10, Some 1); (10, Some 4)]%N with ([] ++ [(10, Some 1); (10, Some 4)])%N.
  eapply ESeqN; [apply EBind|].
  change [(10, Some 1); (10, Some 4)]%N with ([] ++ [(10, Some 1)] ++ [(10, Some 4)])%N.
  eapply EForIter.
  - apply EBind.
  - change [(10, Some 1)]%N with ([] ++ [(10, Some 1)])%N.
    eapply ESeqN; [apply EBrR; apply ESkip|].
    change [(10, Some 1)]%N with ([(10, Some 1)] ++ [])%N.
    eapply ESeqN; [apply (ERead 10 0)|apply EBind].
  - change [(10, Some 4)]%N with ([] ++ [(10, Some 4)] ++ [])%N.
    eapply EForIter.
    + apply EBind.
    + change [(10, Some 4)]%N with ([] ++ [(10, Some 4)])%N.
      eapply ESeqN; [apply EBrR; apply ESkip|].
      change [(10, Some 4)]%N with ([(10, Some 4)] ++ [])%N.
      eapply ESeqN; [apply (ERead 10 0)|apply EBind].
    + apply EForExit. apply ESkip.
Qed.

(* Without the restriction "no return inside a try that has a finally" the statement is FALSE of
   the faithful model: known finding K3.
       try:     x = 1 (site 1); if c: return; x = 2 (site 2)
       finally: print(x) (read 10)
   The execution that returns reads site 1 in the finally clause; supp lists only site 2 (and
   reports site 1 as unused). *)
Definition ex_k3 : cmd :=
  Try false (Seq (Bind 1 0) (Seq (Branch Return Skip) (Bind 2 0))) false HNil Skip (Read 10 0).
Theorem C02_unrestricted_refuted :
  ok ex_k3 = false /\
  (exists tr o p', exec ex_k3 renv0 tr o p' /\ In (10, Some 1) tr) /\
  ~ In (Some 1) (seen ex_k3 aenv0 10) /\ used ex_k3 aenv0 1 = false.
Proof.
  split; [reflexivity|]. split; [|split; [vm_compute; intros [H|[]]; discriminate|reflexivity]].
  exists [(10, Some 1)], ORet, (upd renv0 0 (Some 1)). split; [|left; reflexivity].
  unfold ex_k3. change [(10, Some 1)] with ([] ++ [(10, Some 1)]).
  eapply (ETryBodyRet false _ false HNil Skip (Read 10 0) renv0 [] (upd renv0 0 (Some 1)) [(10, Some 1)] ONorm).
  - change (@nil (site * alt)) with (@nil (site * alt) ++ []).
    eapply ESeqN; [apply EBind|]. apply ESeqR. apply EBrL. apply EReturn.
  - apply (ERead 10 0 (upd renv0 0 (Some 1))).
Qed.
Print Assumptions C02_unrestricted_refuted.

(* scope.py returns, for the flow that closes a loop, the names its resolution computed with the
   back edge skipped (instead of walking the body a second time): the two are equal as sets for
   every loop body, because the transfer function of a body is in gen/kill form. *)
Theorem C02_second_pass_adds_nothing : forall tg b s x a,
  In a (an b (an tg (join s (an b (an tg s)))) x) <-> In a (an b (an tg s) x).
Proof. exact ReachExtra.for_body_end_stable. Qed.
Print Assumptions C02_second_pass_adds_nothing.
