(* C16 - exactly one server under every interleaving; close and disconnect end it.
   Statements only; proofs are in Proofs/ClientProofs.v. Model: Model/Client.v
   (supp/remote.py prepare / run / _threaded_run / _run / _call / close at source-line
   granularity; any number of client threads, any scripts over {Prepare, Call, Close}, any
   schedule = list of thread ids of any length, launch and connect outcomes by oracle). *)
From Coq Require Import List Bool Arith.
Import ListNotations.
From Supp Require Import Model.Client Proofs.ClientProofs.

(* One server per session, under every interleaving, for both the pinned and the repaired
   run(): the number of server processes launched equals  sessions closed (completed
   del self.conn) + launches abandoned with the timeout exception + 1 if a server is connected
   + 1 if one is between Popen and Client - and the last two never add up to more than 1. *)
Theorem C16_one_server_per_session : forall c o scripts sched,
  let s := run c o sched (init scripts) in
  launches (sh s) = epoch (sh s) + failed (sh s) + b2n (is_some (conn (sh s))) + inflight (sh s) /\
  b2n (is_some (conn (sh s))) + inflight (sh s) <= 1.
Proof. intros. apply launches_exact, reachable_inv. Qed.
Print Assumptions C16_one_server_per_session.

(* Deadlock freedom: in every reachable state either every client script has run to its end
   and every starter thread has finished, or some thread can execute its next line. *)
Theorem C16_deadlock_free : forall c o scripts sched,
  let s := run c o sched (init scripts) in
  all_done s \/ exists t, step c o s t <> None.
Proof. intros. apply deadlock_free, reachable_inv. Qed.
Print Assumptions C16_deadlock_free.
