(* C16 - exactly one server under every interleaving; close and disconnect end it.
   Statements only; proofs are in Proofs/ClientProofs.v. Model: Model/Client.v
   (supp/remote.py prepare / run / _threaded_run / _run / _call / close at source-line
   granularity; ANY number of client threads, ANY scripts over {Prepare, Call, Close}, ANY
   schedule = list of thread ids of any length; launch and connect outcomes by oracle).
   cfg selects the pinned-tree lines (fix_f2 = fix_f3 = false) or the repaired ones. *)
From Coq Require Import List Bool Arith.
Import ListNotations.
From Supp Require Import Model.Client Proofs.ClientProofs.
#[local] Open Scope list_scope.

(* One server per session under every interleaving (pinned and repaired run() alike): the number
   of server processes launched equals  sessions closed (completed `del self.conn`)
   + launches abandoned with the timeout exception + 1 if a server is connected + 1 if one is
   between Popen and Client - and the last two never add up to more than 1.  With no close and
   no failed launch this is `launches <= 1`. *)
Theorem C16_one_server_per_session : forall c o scripts sched,
  let s := run c o sched (init scripts) in
  launches (sh s) = epoch (sh s) + failed (sh s) + b2n (is_some (conn (sh s))) + inflight (sh s) /\
  b2n (is_some (conn (sh s))) + inflight (sh s) <= 1.
Proof. intros. apply launches_exact, reachable_inv. Qed.
Print Assumptions C16_one_server_per_session.

(* ... and exactly 1 as soon as the connection exists (a call can only be answered over it). *)
Theorem C16_exactly_one_once_connected : forall c o scripts sched,
  let s := run c o sched (init scripts) in
  conn (sh s) <> None -> launches (sh s) = epoch (sh s) + failed (sh s) + 1.
Proof. intros. apply exactly_one_once_connected; [apply reachable_inv|assumption]. Qed.
Print Assumptions C16_exactly_one_once_connected.

(* No start-up exception, repaired run(), launches and connects that do not time out, ANY scripts
   (close() included) and ANY schedule: no thread is ever unwinding prepare()/run() with an
   exception (AttributeError from the handle race, launch timeout, start of a started thread),
   and no starter thread dies with one. *)
Theorem C16_no_startup_exception : forall c o scripts sched,
  fix_f3 c = true -> good_oracle o ->
  let s := run c o sched (init scripts) in
  (forall i, on bad_pc (clients s i) = false) /\ (forall h, st_clean (starters s h)).
Proof. intros c o scripts sched H3 Hg. exact (no_startup_exception c o H3 Hg scripts sched). Qed.
Print Assumptions C16_no_startup_exception.

(* Every call is answered: close-free scripts (background prepare() requests and calls from any
   number of threads), repaired run(), launches that succeed.  Under every schedule no operation
   ever ends with an exception, each thread has received exactly as many replies as calls it has
   completed (all of them once its script has run to its end), at most one server is launched,
   and exactly one as soon as any call has been answered. *)
Theorem C16_calls_answered : forall c o scripts sched,
  fix_f3 c = true -> good_oracle o -> (forall l, In l scripts -> ~ In Close l) ->
  let s := run c o sched (init scripts) in
  (forall i, t_exns (clients s i) = []) /\
  (forall i, t_answers (clients s i) + calls (t_script (clients s i)) = calls (nth i scripts [])) /\
  (forall i, t_script (clients s i) = [] -> t_answers (clients s i) = calls (nth i scripts [])) /\
  launches (sh s) <= 1 /\
  ((exists i, 0 < t_answers (clients s i)) -> launches (sh s) = 1).
Proof. intros c o scripts sched H3 Hg Hcf. exact (closefree_all_answered c o scripts H3 Hg Hcf sched). Qed.
Print Assumptions C16_calls_answered.

(* Non-vacuity: prepare + three first calls, a refused connect that is retried, round robin. *)
Example C16_calls_answered_example :
  let o := mk_oracle [] [CRetry] in
  let s := run cfg_fixed o (flat_map (fun _ => [Cl 0; Cl 1; Cl 2; St 0]) (seq 0 40))
               (init [[Prepare; Call]; [Call]; [Call; Call]]) in
  good_oracle o /\ launches (sh s) = 1 /\ starters s 0 = SDone None /\
  map (fun i => (t_script (clients s i), t_answers (clients s i), t_exns (clients s i))) [0; 1; 2]
  = [([], 1, []); ([], 1, []); ([], 2, [])].
Proof.
  split; [split; intros k; [destruct k; reflexivity|destruct k as [|[|k]]; discriminate]|].
  vm_compute. repeat split; reflexivity.
Qed.

(* Each launch uses a fresh listener address, and the session's server is the one the client
   talks to: in every reachable state the addresses given to the launched servers are pairwise
   distinct (one per launch), and the connection, when it exists, was made to the address of the
   most recently launched server - never to the address of a server of an earlier session (which
   may still be shutting down) or of an abandoned launch. *)
Theorem C16_fresh_address : forall c o scripts sched,
  let s := run c o sched (init scripts) in
  NoDup (srv_addrs (sh s)) /\ length (srv_addrs (sh s)) = launches (sh s) /\
  (forall k, conn (sh s) = Some k -> exists r, srv_addrs (sh s) = c_addr k :: r).
Proof. intros c o scripts sched. exact (fresh_addresses c o scripts sched). Qed.
Print Assumptions C16_fresh_address.

(* Non-vacuity: call, close, call, with the second launch abandoned (timeout) and retried:
   three servers on three addresses, the connection goes to the newest. *)
Example C16_fresh_address_example :
  let o := mk_oracle [] [COk; CTimeout] in
  let s := run cfg_fixed o (repeat (Cl 0) 90) (init [[Call; Close; Call; Call]]) in
  (srv_addrs (sh s), launches (sh s), option_map c_addr (conn (sh s)), t_answers (clients s 0))
  = ([2; 1; 0], 3, Some 2, 2).
Proof. vm_compute. reflexivity. Qed.

(* The server of a session ends when its connection ends (server.py): after any number k of
   ordinary requests - k = 0 included: a session that was only pre-started - the close request, the
   disappearance of the client end (EOF) or undecodable input ends the server process, which has
   answered exactly those k requests; it accepts one connection in its life. *)
Theorem C16_server_ends_with_connection : forall k e rest,
  e <> EvRequest -> srv_run (repeat EvRequest k ++ e :: rest) = SrvExited k.
Proof. exact server_ends. Qed.
Print Assumptions C16_server_ends_with_connection.

(* F3 on the pinned tree: run() tests self.prepare_thread and reads it again to join it; the
   starter clears it in between (2 threads, 19 scheduled lines) -> the caller unwinds run() with
   AttributeError although the launch succeeded. *)
(* witness: f3_scripts = [[Prepare]; [Call]], f3_schedule = thread 0 x 6, thread 1 x 7, starter x 5,
   thread 1 x 1 (Proofs/ClientProofs.v) *)
Theorem C16_F3_refuted : exists scripts sched,
  let s := run cfg_asis oracle_ok sched (init scripts) in
  ~ (forall i, on bad_pc (clients s i) = false) /\
  t_pc (clients s 1) = RRelExc AttrErr /\ launches (sh s) = 1.
Proof.
  exists f3_scripts, f3_schedule. vm_compute. split; [|split; reflexivity].
  intros H. specialize (H 1). discriminate H.
Qed.
Print Assumptions C16_F3_refuted.

(* the same schedule, run to the end: the caller records AttributeError and gets no reply on the
   pinned tree; on the repaired one it is answered by the one server *)
Example C16_F3_outcome :
  let fin := f3_schedule ++ repeat (Cl 1) 12 in
  let a := run cfg_asis oracle_ok fin (init f3_scripts) in
  let f := run cfg_fixed oracle_ok fin (init f3_scripts) in
  (t_exns (clients a 1), t_answers (clients a 1)) = ([AttrErr], 0) /\
  (t_exns (clients f 1), t_answers (clients f 1), launches (sh f)) = ([], 1, 1).
Proof. vm_compute. split; reflexivity. Qed.

(* F2 on the pinned tree: close() raises TypeError and the session stays up. *)
Theorem C16_F2_refuted : exists scripts sched,
  let s := run cfg_asis oracle_ok sched (init scripts) in
  t_exns (clients s 0) = [TypeErr] /\ conn (sh s) <> None /\ epoch (sh s) = 0.
Proof.
  exists [[Call; Close]], (repeat (Cl 0) 20). vm_compute. split; [reflexivity|split; [discriminate|reflexivity]].
Qed.
Print Assumptions C16_F2_refuted.

(* Deadlock freedom: in every reachable state either every client script has run to its end
   and every starter thread has finished, or some thread can execute its next line. *)
Theorem C16_deadlock_free : forall c o scripts sched,
  let s := run c o sched (init scripts) in
  all_done s \/ exists t, step c o s t <> None.
Proof. intros. apply deadlock_free, reachable_inv. Qed.
Print Assumptions C16_deadlock_free.

(* The starter thread never takes (or releases) the lock. *)
Theorem C16_starter_never_locks : forall c o s h s',
  step c o s (St h) = Some s' -> lock (sh s') = lock (sh s).
Proof. exact starter_never_locks. Qed.
Print Assumptions C16_starter_never_locks.

(* Step bound: every line a client executes ends its operation or strictly decreases a measure
   that is at most 24, so an operation is at most 25 of its own lines; a starter at most 5
   (when no connect attempt is retried; every retry costs one more line). *)
Theorem C16_step_bound : forall c o s,
  no_retry o ->
  (forall i s', step c o s (Cl i) = Some s' ->
     length (t_script (clients s' i)) < length (t_script (clients s i)) \/
     (t_script (clients s' i) = t_script (clients s i) /\
      mu (t_pc (clients s' i)) < mu (t_pc (clients s i)) <= 24)) /\
  (forall h s', step c o s (St h) = Some s' -> smu (starters s' h) < smu (starters s h) <= 6).
Proof. exact step_bound. Qed.
Print Assumptions C16_step_bound.

(* close() then a call launches exactly one new server: from ANY state in which the session is
   up, nobody is inside prepare()/run() and no starter is registered, a thread that runs
   close() and then a call (22 lines, alone) ends the session (epoch + 1), launches exactly one
   server on a NEW listener address (naddr: the next arbitrary_address()), leaves a fresh
   connection to that address and gets its reply. *)
Theorem C16_close_then_call : forall c o s i rest k,
  fix_f2 c = true -> fix_f3 c = true ->
  t_script (clients s i) = Close :: Call :: rest -> t_pc (clients s i) = KTry ->
  lock (sh s) = None -> handle (sh s) = None ->
  conn (sh s) = Some k -> c_closed k = false ->
  o_popen o (popens (sh s)) = true -> o_conn o (attempts (sh s)) = COk ->
  let s' := run c o (repeat (Cl i) 22) s in
  launches (sh s') = S (launches (sh s)) /\ epoch (sh s') = S (epoch (sh s)) /\
  conn (sh s') = Some (fresh_conn (naddr (sh s))) /\ lock (sh s') = None /\ handle (sh s') = None /\
  t_script (clients s' i) = rest /\ t_exns (clients s' i) = t_exns (clients s i) /\
  t_answers (clients s' i) = S (t_answers (clients s i)).
Proof. exact close_then_call. Qed.
Print Assumptions C16_close_then_call.

(* Non-vacuity: the hypotheses of C16_close_then_call hold in a reachable state (three threads,
   a background prepare, two concurrent first calls, interleaved; then thread 0 is about to close). *)
Example C16_close_then_call_applies :
  let sched := [Cl 1; Cl 1; Cl 1; Cl 1; Cl 1; Cl 1; Cl 0; Cl 2; St 0; Cl 0; Cl 2; St 0; Cl 0; Cl 2; St 0;
                Cl 0; Cl 2; St 0; Cl 0; Cl 2; St 0; Cl 0; Cl 2; Cl 0; Cl 0; Cl 0; Cl 0; Cl 2; Cl 0; Cl 2;
                Cl 0; Cl 2; Cl 0; Cl 2; Cl 0; Cl 2; Cl 2; Cl 2; Cl 2; Cl 2] in
  let s := run cfg_fixed oracle_ok sched (init [[Call; Close; Call]; [Prepare]; [Call]]) in
  t_script (clients s 0) = [Close; Call] /\ t_pc (clients s 0) = KTry /\
  lock (sh s) = None /\ handle (sh s) = None /\ conn (sh s) = Some (fresh_conn 0) /\
  launches (sh s) = 1 /\ t_answers (clients s 0) = 1 /\ t_answers (clients s 2) = 1 /\
  t_exns (clients s 0) = [] /\ t_exns (clients s 2) = [].
Proof. vm_compute. repeat split; reflexivity. Qed.

(* Non-vacuity of the safety theorems: a launch that fails and is retried, a close and a relaunch
   in one run - 3 launches = 1 closed session + 1 abandoned launch + 1 connected server. *)
Example C16_accounting_example :
  let o := mk_oracle [] [CTimeout] in
  let s := run cfg_fixed o (repeat (Cl 0) 80) (init [[Call; Call; Close; Call]]) in
  (launches (sh s), epoch (sh s), failed (sh s), is_some (conn (sh s)), t_exns (clients s 0),
   t_answers (clients s 0)) = (3, 1, 1, true, [TimeoutErr], 2).
Proof. vm_compute. reflexivity. Qed.
