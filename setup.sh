#!/bin/bash
# Offline setup: full .vo build (no -vos/-vok) of the Coq development needed by the claimed checks.
set -e
cd "$(dirname "$0")/coq"
{ echo "-Q . Supp"; find Lib Model Proofs Props -name '*.v' 2>/dev/null | LC_ALL=C sort; } > _CoqProject
coq_makefile -f _CoqProject -o Makefile
targets="Lib/Cases.vo"
for id in $(cat ../manifest.d/ENABLED); do
  [ -f "Props/$id.v" ] && targets="$targets Props/$id.vo"
done
timeout 3000 make -j16 $targets
