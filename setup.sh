#!/bin/bash
# Offline setup: full .vo build of the Coq development (no -vos/-vok).
set -e
cd "$(dirname "$0")/coq"
{ echo "-Q . Supp"; find Lib Model Proofs Props -name '*.v' 2>/dev/null | LC_ALL=C sort; } > _CoqProject
coq_makefile -f _CoqProject -o Makefile
timeout 3000 make -j16
